package c05

// The reference ("refval" of DESIGN §3.4): the operators of property C05
// written with Go's own operators on int64 / float64 / string.  It is
// deliberately boring.  Every operation returns one of three statuses:
//
//	ok     the property defines the result (value and dynamic type)
//	fails  the property defines that the operation is an error (`%` by zero)
//	typeonly  the property fixes only the dynamic type (float64) of the result
//	undef  the property is silent for this operand-kind combination (or the
//	       case is excluded for resources): never compared, never generated
//	       as a sub-expression of a compared case
import (
	"fmt"
	"strings"

	vp "verif/engine/lib/valpool"
)

type status int

const (
	ok status = iota
	fails
	undef
	// typeonly: the property fixes the dynamic type of the result but not its
	// value: `-` and `*` with exactly one float64 operand and a string operand
	// ("`+ - *` ... are carried out in float64 as soon as one operand is a
	// float"; how a string is read as a number is not specified).  The returned
	// Val only carries the kind.  A typeonly node is compared at the root of a
	// tree only; as an operand its value is unknown, so the parent is undef.
	typeonly
)

// MaxRepeat / MaxStrLen bound `string * n`: larger counts or results are not
// compared (memory), negative counts are not compared (property is silent).
const (
	MaxRepeat = 1000
	MaxStrLen = 1 << 16
)

var binOps = []string{"+", "-", "*", "/", "%", "&", "|", "<<", ">>", "==", "!=", "<", "<=", ">", ">="}
var unOps = []string{"-", "^"}

func isNum(v vp.Val) bool { return v.K == vp.Int || v.K == vp.Float }

func f64(v vp.Val) float64 {
	if v.K == vp.Int {
		return float64(v.I)
	}
	return v.F
}

// sprint is "numbers in Go's default formatting".
func sprint(v vp.Val) string {
	switch v.K {
	case vp.Int:
		return fmt.Sprint(v.I)
	case vp.Float:
		return fmt.Sprint(v.F)
	}
	return v.S
}

func refBinary(op string, a, b vp.Val) (vp.Val, status) {
	if (op == "-" || op == "*") && ((a.K == vp.Float && b.K == vp.Str) || (a.K == vp.Str && b.K == vp.Float)) {
		return vp.Val{K: vp.Float}, typeonly
	}
	ii := a.K == vp.Int && b.K == vp.Int
	// numeric with at least one float
	fl := isNum(a) && isNum(b) && !ii
	switch op {
	case "+":
		switch {
		case ii:
			return vp.IntV(a.I + b.I), ok
		case fl:
			return vp.FloatV(f64(a) + f64(b)), ok
		case a.K == vp.Str && (b.K == vp.Str || isNum(b)), isNum(a) && b.K == vp.Str:
			s := sprint(a) + sprint(b)
			if len(s) > MaxStrLen {
				return vp.Val{}, undef
			}
			return vp.StrV(s), ok
		}
	case "-":
		switch {
		case ii:
			return vp.IntV(a.I - b.I), ok
		case fl:
			return vp.FloatV(f64(a) - f64(b)), ok
		}
	case "*":
		switch {
		case ii:
			return vp.IntV(a.I * b.I), ok
		case fl:
			return vp.FloatV(f64(a) * f64(b)), ok
		case a.K == vp.Str && b.K == vp.Int:
			if b.I < 0 || b.I > MaxRepeat || int64(len(a.S))*b.I > MaxStrLen {
				return vp.Val{}, undef
			}
			return vp.StrV(strings.Repeat(a.S, int(b.I))), ok
		}
	case "/":
		if isNum(a) && isNum(b) {
			return vp.FloatV(f64(a) / f64(b)), ok
		}
	case "%":
		if ii {
			if b.I == 0 {
				return vp.Val{}, fails
			}
			return vp.IntV(a.I % b.I), ok
		}
	case "&":
		if ii {
			return vp.IntV(a.I & b.I), ok
		}
	case "|":
		if ii {
			return vp.IntV(a.I | b.I), ok
		}
	case "<<":
		if ii {
			return vp.IntV(a.I << uint64(b.I)), ok
		}
	case ">>":
		if ii {
			return vp.IntV(a.I >> uint64(b.I)), ok
		}
	case "==":
		if ii {
			return vp.BoolV(a.I == b.I), ok
		}
	case "!=":
		if ii {
			return vp.BoolV(a.I != b.I), ok
		}
	case "<":
		switch {
		case ii:
			return vp.BoolV(a.I < b.I), ok
		case fl:
			return vp.BoolV(f64(a) < f64(b)), ok
		}
	case "<=":
		switch {
		case ii:
			return vp.BoolV(a.I <= b.I), ok
		case fl:
			return vp.BoolV(f64(a) <= f64(b)), ok
		}
	case ">":
		switch {
		case ii:
			return vp.BoolV(a.I > b.I), ok
		case fl:
			return vp.BoolV(f64(a) > f64(b)), ok
		}
	case ">=":
		switch {
		case ii:
			return vp.BoolV(a.I >= b.I), ok
		case fl:
			return vp.BoolV(f64(a) >= f64(b)), ok
		}
	}
	return vp.Val{}, undef
}

func refUnary(op string, a vp.Val) (vp.Val, status) {
	switch op {
	case "-":
		switch a.K {
		case vp.Int:
			return vp.IntV(-a.I), ok
		case vp.Float:
			// "`-` ... carried out in float64 as soon as one operand is a float"
			return vp.FloatV(-a.F), ok
		}
	case "^":
		if a.K == vp.Int {
			return vp.IntV(^a.I), ok
		}
	}
	return vp.Val{}, undef
}

// ---- expression trees ----

// node is an expression tree over variables/literals leaf 0..n-1.
type node struct {
	op   string // "" = leaf
	un   bool
	leaf int
	l, r *node
}

func leaf(i int) *node                { return &node{leaf: i} }
func bin(op string, l, r *node) *node { return &node{op: op, l: l, r: r} }
func un(op string, x *node) *node     { return &node{op: op, un: true, l: x} }

// eval: undef dominates (the case is outside the compared set); otherwise an
// erroring operand makes the whole (strict) expression an error.
func (n *node) eval(vals []vp.Val) (vp.Val, status) {
	if n.op == "" {
		return vals[n.leaf], ok
	}
	if n.un {
		x, st := n.l.eval(vals)
		if st == typeonly {
			return x, undef
		}
		if st != ok {
			return x, st
		}
		return refUnary(n.op, x)
	}
	a, sa := n.l.eval(vals)
	if sa == undef || sa == typeonly {
		return a, undef
	}
	b, sb := n.r.eval(vals)
	if sb == undef || sb == typeonly {
		return b, undef
	}
	if sa == fails || sb == fails {
		return vp.Val{}, fails
	}
	return refBinary(n.op, a, b)
}

// src renders the tree fully parenthesised; leaves[i] is the text of leaf i.
func (n *node) src(leaves []string) string { return n.render(leaves, true) }

func (n *node) render(leaves []string, top bool) string {
	if n.op == "" {
		return leaves[n.leaf]
	}
	if n.un {
		// -a for a variable; -(5), -(-5), -(x + y) otherwise, so that "- 5" is
		// never read as the literal -5
		var u string
		if n.l.op == "" && isIdent(leaves[n.l.leaf]) {
			u = n.op + leaves[n.l.leaf]
		} else {
			u = n.op + "(" + n.l.render(leaves, true) + ")"
		}
		if top {
			return u
		}
		return "(" + u + ")"
	}
	s := n.l.render(leaves, false) + " " + n.op + " " + n.r.render(leaves, false)
	if top {
		return s
	}
	return "(" + s + ")"
}

func isIdent(s string) bool {
	return s != "" && (s[0] >= 'a' && s[0] <= 'z')
}

func (n *node) depth() int {
	if n.op == "" {
		return 0
	}
	d := n.l.depth()
	if !n.un {
		if r := n.r.depth(); r > d {
			d = r
		}
	}
	return d + 1
}
