package c13

import (
	"reflect"
	"sync"

	"github.com/mattn/anko/env"
	"verif/engine/common"
)

// Free-running bodies for the supplementary race-detector pass (common/race.go):
// the same scenarios and chain groups as the scheduler-driven exploration, real
// goroutines, no scheduler.  The harness itself shares nothing between the
// goroutines of a run except the scopes (results are consumed locally), and the
// only synchronisation it adds is the start gate and the final wait, so every
// happens-before edge between two operations comes from the environment's own
// locking.

var raceSink int64

func consume(v interface{}) {
	// read what was returned, so that a result that aliases guarded memory is touched
	switch t := v.(type) {
	case []string:
		for _, s := range t {
			_ = len(s)
		}
	case reflect.Value:
		if t.IsValid() && t.CanInterface() {
			_ = readVal(t.Interface())
		}
	default:
		_ = readVal(v)
	}
}

func freeOp(e, parent *env.Env, o opSpec) {
	if o.Scope == 1 {
		e = parent
	}
	switch o.Kind {
	case "Define":
		e.DefineValue(o.Name, cell(o.Val))
	case "DefineGlobal":
		e.DefineGlobalValue(o.Name, cell(o.Val))
	case "Set":
		e.SetValue(o.Name, cell(o.Val))
	case "Get":
		if v, err := e.Get(o.Name); err == nil {
			consume(v)
		}
	case "NewModule":
		e.NewModule(o.Name)
	case "PathGet":
		if m, err := e.GetEnvFromPath([]string{o.Name}); err == nil {
			if v, err := m.Get("q"); err == nil {
				consume(v)
			}
		}
	case "Path":
		e.GetEnvFromPath([]string{o.Name})
	case "Delete":
		e.Delete(o.Name)
	case "DeleteGlobal":
		e.DeleteGlobal(o.Name)
	case "Addr":
		if p, err := e.Addr(o.Name); err == nil && p.Kind() == reflect.Ptr {
			consume(p.Elem().Interface())
		}
	case "DefineType":
		e.DefineType(o.Name, "")
	case "Type":
		if t, err := e.Type(o.Name); err == nil {
			_ = t.String()
		}
	case "Copy":
		c := e.Copy()
		// use the private copy through its API (a copy that shares a table with
		// its source is written here without the source's lock)
		consume(c.GetValueSymbols())
		consume(c.GetTypeSymbols())
		c.DefineValue("zz", cell(1))
		c.DefineType("zz", "")
		c.Delete("zz")
	case "GetValueSymbols":
		consume(e.GetValueSymbols())
	case "GetTypeSymbols":
		consume(e.GetTypeSymbols())
	case "String":
		_ = len(e.String())
	}
}

func raceBody(c *common.Ctx, rep *common.RaceReport) {
	reps := 3
	if c.Thorough() {
		reps = 6
	}
	scs := scenarios(true)
	// the operations kept out of the linearizability alphabet are part of the
	// "no data race" clause all the same
	extra := []opSpec{{Kind: "DefineGlobal", Name: "a"}, {Kind: "Define", Name: "a", Scope: 1}, {Kind: "Delete", Name: "a", Scope: 1},
		{Kind: "Copy", Scope: 1}, {Kind: "String", Scope: 1}, {Kind: "DefineType", Name: "a", Scope: 1}, {Kind: "NewModule", Name: "a"}}
	for _, x := range extra {
		for _, o := range alphabet {
			for cfg := 0; cfg < 3; cfg++ {
				scs = append(scs, scenario{Cfg: cfg, Threads: withVals([][]opSpec{{x}, {o}})})
				scs = append(scs, scenario{Cfg: cfg, Threads: withVals([][]opSpec{{x, o}, {o, x}})})
			}
		}
	}
	common.ParallelFor(c, len(scs), func(i int) {
		sc := scs[i]
		for r := 0; r < reps; r++ {
			parent := env.NewEnv()
			parent.DefineValue("a", cell(1))
			parent.DefineType("a", int64(0))
			parent.DefineValue("q", cell(7))
			e := parent.NewEnv()
			if sc.Cfg == 0 {
				e.DefineValue("a", cell(2))
			}
			if sc.Cfg == 2 {
				parent.NewModule("a")
				e.NewModule("a")
			}
			gate := make(chan struct{})
			var wg sync.WaitGroup
			for ti := range sc.Threads {
				// rotate which thread is started first
				ops := sc.Threads[(ti+r)%len(sc.Threads)]
				wg.Add(1)
				go func() {
					defer wg.Done()
					defer func() { recover() }()
					<-gate
					for _, o := range ops {
						freeOp(e, parent, o)
					}
				}()
			}
			close(gate)
			wg.Wait()
		}
		rep.Add(1, int64(reps))
	})
	// chain family: operations on different scopes of one chain
	n := len(chainOps)
	var groups [][]int
	for i := 0; i < n; i++ {
		for j := i; j < n; j++ {
			groups = append(groups, []int{i, j})
			for k := j; k < n; k++ {
				groups = append(groups, []int{i, j, k})
			}
		}
	}
	common.ParallelFor(c, len(groups), func(gi int) {
		g := groups[gi]
		for r := 0; r < reps; r++ {
			root := env.NewEnv()
			root.Define("x", int64(1))
			root.DefineType("T", "")
			mod, _ := root.NewModule("m")
			mod.NewModule("sub")
			leaf := mod.NewEnv()
			gate := make(chan struct{})
			var wg sync.WaitGroup
			for ti := range g {
				oi := g[(ti+r)%len(g)]
				wg.Add(1)
				go func() {
					defer wg.Done()
					defer func() { recover() }()
					<-gate
					chainOps[oi].Run(root, mod, leaf)
				}()
			}
			close(gate)
			wg.Wait()
		}
		rep.Add(1, int64(reps))
	})
}
