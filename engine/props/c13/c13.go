// Package c13: an environment is safe to share between goroutines.
// All interleavings (at lock-acquisition granularity, under the cooperative
// scheduler) of 2-3 threads each running 1-2 env operations that collide on one
// key; every complete interleaving's call/return history (plus a final read of
// the whole state) must be linearizable w.r.t. a sequential dictionary-chain
// specification; no deadlock; every access to the guarded maps happens under
// the scope's lock (lockset monitor).
package c13

import (
	"fmt"
	"reflect"
	"sort"
	"strings"

	"github.com/anishathalye/porcupine"
	"github.com/mattn/anko/env"
	"github.com/mattn/anko/vhook"
	"verif/engine/common"
	"verif/engine/explore"
	"verif/engine/sched"
)

// ---------- sequential specification ----------

type state struct {
	cv, pv map[string]int64
	ct, pt map[string]string
}

func (s state) clone() state {
	n := state{cv: map[string]int64{}, pv: map[string]int64{}, ct: map[string]string{}, pt: map[string]string{}}
	for k, v := range s.cv {
		n.cv[k] = v
	}
	for k, v := range s.pv {
		n.pv[k] = v
	}
	for k, v := range s.ct {
		n.ct[k] = v
	}
	for k, v := range s.pt {
		n.pt[k] = v
	}
	return n
}

func dumpVals(m map[string]int64) string {
	var ks []string
	for k := range m {
		ks = append(ks, k)
	}
	sort.Strings(ks)
	var b strings.Builder
	for _, k := range ks {
		fmt.Fprintf(&b, "%s=%d,", k, m[k])
	}
	return b.String()
}
func dumpTypes(m map[string]string) string {
	var ks []string
	for k := range m {
		ks = append(ks, k)
	}
	sort.Strings(ks)
	var b strings.Builder
	for _, k := range ks {
		fmt.Fprintf(&b, "%s=%s,", k, m[k])
	}
	return b.String()
}
func keysOf(m map[string]int64, t map[string]string) string {
	var ks []string
	for k := range m {
		ks = append(ks, k)
	}
	for k := range t {
		ks = append(ks, k)
	}
	sort.Strings(ks)
	return strings.Join(ks, ",")
}

func (s state) key() string {
	return "cv{" + dumpVals(s.cv) + "}ct{" + dumpTypes(s.ct) + "}pv{" + dumpVals(s.pv) + "}pt{" + dumpTypes(s.pt) + "}"
}

type opSpec struct {
	Kind  string `json:"k"`
	Name  string `json:"n,omitempty"`
	Val   int64  `json:"v,omitempty"`
	Scope int    `json:"s,omitempty"` // 0 = the shared child scope, 1 = its parent (the root)
}

func (o opSpec) String() string {
	if o.Scope == 1 {
		c := o
		c.Scope = 0
		return "P." + c.String()
	}
	switch o.Kind {
	case "Define", "Set", "DefineGlobal":
		return fmt.Sprintf("%s(%s,%d)", o.Kind, o.Name, o.Val)
	case "DefineType":
		return fmt.Sprintf("DefineType(%s,string)", o.Name)
	case "Copy", "GetValueSymbols", "GetTypeSymbols", "String", "ReadAll":
		return o.Kind + "()"
	}
	return fmt.Sprintf("%s(%s)", o.Kind, o.Name)
}

// apply executes o sequentially on s; returns the specified output.
func apply(s state, o opSpec) (state, string) {
	if o.Scope == 1 {
		// the same operation on the parent: swap the roles of the tables (the
		// parent is the root: nothing above it)
		root := state{cv: s.pv, ct: s.pt, pv: map[string]int64{}, pt: map[string]string{}}
		c := o
		c.Scope = 0
		nr, out := apply(root, c)
		if c.Kind == "String" {
			out = strings.Replace(out, "Has parent", "No parent", 1)
		}
		return state{cv: s.cv, ct: s.ct, pv: nr.cv, pt: nr.ct}, out
	}
	switch o.Kind {
	case "Define":
		n := s.clone()
		n.cv[o.Name] = o.Val
		return n, "ok"
	case "DefineGlobal":
		n := s.clone()
		n.pv[o.Name] = o.Val
		return n, "ok"
	case "Set":
		if _, ok := s.cv[o.Name]; ok {
			n := s.clone()
			n.cv[o.Name] = o.Val
			return n, "ok"
		}
		if _, ok := s.pv[o.Name]; ok {
			n := s.clone()
			n.pv[o.Name] = o.Val
			return n, "ok"
		}
		return s, "err"
	case "Get", "Addr":
		if v, ok := s.cv[o.Name]; ok {
			return s, fmt.Sprint(v)
		}
		if v, ok := s.pv[o.Name]; ok {
			return s, fmt.Sprint(v)
		}
		return s, "err"
	case "Delete":
		n := s.clone()
		delete(n.cv, o.Name)
		return n, "ok"
	case "NewModule":
		// a new module (a value >= 100 stands for a module) bound in the scope
		n := s.clone()
		n.cv[o.Name] = o.Val
		return n, "ok"
	case "PathGet":
		// GetEnvFromPath([name]), then a look-up THROUGH the module of a name that
		// only the root binds (q = 7, never written): a module hangs below the scope
		// it was created in
		_, out := apply(s, opSpec{Kind: "Path", Name: o.Name})
		if out == "err" {
			return s, "err"
		}
		return s, out + ":7"
	case "Path":
		// GetEnvFromPath([name]): the nearest scope in which name is bound to a
		// MODULE answers; a binding to something else is passed over
		if v, ok := s.cv[o.Name]; ok && v >= 100 {
			return s, fmt.Sprint(v)
		}
		if v, ok := s.pv[o.Name]; ok && v >= 100 {
			return s, fmt.Sprint(v)
		}
		return s, "err"
	case "DeleteGlobal":
		n := s.clone()
		if _, ok := n.cv[o.Name]; ok {
			delete(n.cv, o.Name)
		} else {
			delete(n.pv, o.Name)
		}
		return n, "ok"
	case "DefineType":
		n := s.clone()
		n.ct[o.Name] = "string"
		return n, "ok"
	case "Type":
		if t, ok := s.ct[o.Name]; ok {
			return s, t
		}
		if t, ok := s.pt[o.Name]; ok {
			return s, t
		}
		return s, "err"
	case "Copy":
		return s, "v{" + dumpVals(s.cv) + "}t{" + dumpTypes(s.ct) + "}"
	case "GetValueSymbols":
		return s, keysOf(s.cv, nil)
	case "GetTypeSymbols":
		return s, keysOf(nil, s.ct)
	case "String":
		return s, "Has parent|" + keysOf(s.cv, s.ct)
	case "ReadAll":
		return s, s.key()
	}
	panic("unknown op " + o.Kind)
}

// ---------- history and linearizability ----------

type opRec struct {
	Thread int      `json:"t"`
	Op     opSpec   `json:"op"`
	Call   int64    `json:"call"`
	Ret    int64    `json:"ret"`
	Out    string   `json:"out"`
	mod    *env.Env // the module an operation returned; numbered after the run
	suffix string   // what was read through that module
}

func histString(h []opRec) string {
	var b strings.Builder
	for _, r := range h {
		fmt.Fprintf(&b, "T%d:%s@[%d,%d]->%s; ", r.Thread, r.Op, r.Call, r.Ret, r.Out)
	}
	return b.String()
}

// linearizable: brute force over all orders consistent with real time.
func linearizable(h []opRec, init state) bool {
	n := len(h)
	memo := map[string]bool{}
	var rec func(done uint, s state) bool
	rec = func(done uint, s state) bool {
		if done == (1<<uint(n))-1 {
			return true
		}
		k := fmt.Sprintf("%d|%s", done, s.key())
		if v, ok := memo[k]; ok {
			return v
		}
		res := false
		for i := 0; i < n && !res; i++ {
			if done&(1<<uint(i)) != 0 {
				continue
			}
			// i is minimal if no other pending op returned before i was called
			minimal := true
			for j := 0; j < n; j++ {
				if j != i && done&(1<<uint(j)) == 0 && h[j].Ret < h[i].Call {
					minimal = false
					break
				}
			}
			if !minimal {
				continue
			}
			ns, out := apply(s, h[i].Op)
			if out != h[i].Out {
				continue
			}
			res = rec(done|1<<uint(i), ns)
		}
		memo[k] = res
		return res
	}
	return rec(0, init)
}

func porcupineCheck(h []opRec, init state) bool {
	model := porcupine.Model{
		Init: func() interface{} { return init },
		Step: func(st, in, out interface{}) (bool, interface{}) {
			ns, o := apply(st.(state), in.(opSpec))
			return o == out.(string), ns
		},
		Equal: func(a, b interface{}) bool { return a.(state).key() == b.(state).key() },
	}
	var ops []porcupine.Operation
	for _, r := range h {
		ops = append(ops, porcupine.Operation{ClientId: r.Thread, Input: r.Op, Call: r.Call, Output: r.Out, Return: r.Ret})
	}
	return porcupine.CheckOperations(model, ops)
}

// ---------- scenarios ----------

type scenario struct {
	Cfg     int        `json:"cfg"` // 0: a bound in child and parent; 1: a bound in the parent only
	Threads [][]opSpec `json:"threads"`
	Bound   int        `json:"bound"` // preemption bound, -1 unbounded
}

func (sc scenario) String() string {
	var parts []string
	for i, t := range sc.Threads {
		var ops []string
		for _, o := range t {
			ops = append(ops, o.String())
		}
		parts = append(parts, fmt.Sprintf("T%d:%s", i, strings.Join(ops, ";")))
	}
	cfg := []string{"a in child+parent", "a in parent only", "a is a module in child and in parent"}[sc.Cfg]
	return cfg + " | " + strings.Join(parts, " || ")
}

var alphabet = []opSpec{
	{Kind: "Define", Name: "a"}, {Kind: "Define", Name: "b"}, {Kind: "Set", Name: "a"}, {Kind: "Get", Name: "a"},
	{Kind: "Delete", Name: "a"}, {Kind: "DeleteGlobal", Name: "a"}, {Kind: "Addr", Name: "a"},
	{Kind: "DefineType", Name: "a"}, {Kind: "Type", Name: "a"}, {Kind: "Copy"},
	{Kind: "GetValueSymbols"}, {Kind: "GetTypeSymbols"}, {Kind: "String"},
	// DefineGlobal (which writes the root directly) and operations applied to the
	// PARENT scope itself (Scope: 1) are implemented in
	// the harness and the specification but deliberately NOT part of the alphabet:
	// the property quantifies over operations on one shared scope with a read-only
	// parent.  (With them, a chain walk such as Get is not atomic with respect to a
	// Define on the child and a Delete on the parent - found by this explorer, but
	// outside what the property states, hence not reported.)
}

// mutating sub-alphabet for the larger shapes
var mutating = []opSpec{
	{Kind: "Define", Name: "a"}, {Kind: "Set", Name: "a"}, {Kind: "Get", Name: "a"},
	{Kind: "Delete", Name: "a"}, {Kind: "DeleteGlobal", Name: "a"}, {Kind: "Copy"},
}

// the module family's alphabet (configuration 2)
var moduleOps = []opSpec{
	{Kind: "Path", Name: "a"}, {Kind: "Delete", Name: "a"}, {Kind: "Define", Name: "a"}, {Kind: "NewModule", Name: "a"},
	{Kind: "Get", Name: "a"}, {Kind: "Copy"}, {Kind: "GetValueSymbols"},
	// Set and DeleteGlobal are left out here: once the binding in the shared scope
	// is gone they WRITE THE PARENT, and a path lookup - which passes over a
	// non-module binding of the shared scope - then observes that the chain walk of
	// Set is not one atomic step (Delete(a);Set(a) || Define(a);Path(a)).  The
	// property's quantifier fixes a read-only parent, so such histories are outside
	// it (see DESIGN 7b, "observed but outside what the properties state").
}

func withVals(threads [][]opSpec) [][]opSpec {
	out := make([][]opSpec, len(threads))
	for i, t := range threads {
		for j, o := range t {
			if o.Kind == "Define" || o.Kind == "Set" || o.Kind == "DefineGlobal" {
				o.Val = int64((i+1)*10 + j + 1)
			}
			if o.Kind == "NewModule" {
				o.Val = int64(1000 + (i+1)*10 + j + 1)
			}
			out[i] = append(out[i], o)
		}
	}
	return out
}

func scenarios(thorough bool) []scenario {
	var res []scenario
	add := func(threads [][]opSpec, bound int) {
		for cfg := 0; cfg < 2; cfg++ {
			res = append(res, scenario{Cfg: cfg, Threads: withVals(threads), Bound: bound})
		}
	}
	n := len(alphabet)
	// 2 threads x 1 op, all interleavings
	for i := 0; i < n; i++ {
		for j := i; j < n; j++ {
			add([][]opSpec{{alphabet[i]}, {alphabet[j]}}, -1)
		}
	}
	// 3 threads x 1 op, all interleavings
	for i := 0; i < n; i++ {
		for j := i; j < n; j++ {
			for k := j; k < n; k++ {
				add([][]opSpec{{alphabet[i]}, {alphabet[j]}, {alphabet[k]}}, -1)
			}
		}
	}
	// 2 threads x 2 ops: mutating sub-alphabet with all interleavings; the full
	// alphabet with preemption bound 2 (thorough)
	m := len(mutating)
	for i := 0; i < m*m; i++ {
		for j := i; j < m*m; j++ {
			add([][]opSpec{{mutating[i/m], mutating[i%m]}, {mutating[j/m], mutating[j%m]}}, -1)
		}
	}
	// module family: a is bound to a module in the shared scope AND in its parent;
	// path lookups against deletes, re-definitions and new modules
	addM := func(threads [][]opSpec) {
		res = append(res, scenario{Cfg: 2, Threads: withVals(threads), Bound: -1})
	}
	k := len(moduleOps)
	for i := 0; i < k; i++ {
		for j := i; j < k; j++ {
			addM([][]opSpec{{moduleOps[i]}, {moduleOps[j]}})
			for l := j; l < k; l++ {
				addM([][]opSpec{{moduleOps[i]}, {moduleOps[j]}, {moduleOps[l]}})
			}
		}
	}
	for i := 0; i < k*k; i++ {
		for j := i; j < k*k; j++ {
			addM([][]opSpec{{moduleOps[i/k], moduleOps[i%k]}, {moduleOps[j/k], moduleOps[j%k]}})
		}
	}
	// first-time family: the shared scope has NO table of its own yet (configuration
	// 1: the name is bound in the parent only, the child holds no value and no type);
	// two and three operations that each may create a table lazily, on DIFFERENT
	// names, so that a table dropped by a second creator is seen as a lost definition
	firstOps := []opSpec{{Kind: "DefineType", Name: "a"}, {Kind: "DefineType", Name: "b"}, {Kind: "Define", Name: "a"}, {Kind: "Define", Name: "b"},
		{Kind: "Type", Name: "b"}, {Kind: "GetTypeSymbols"}, {Kind: "GetValueSymbols"}, {Kind: "Copy"}}
	addF := func(threads [][]opSpec) {
		res = append(res, scenario{Cfg: 1, Threads: withVals(threads), Bound: -1})
	}
	nf := len(firstOps)
	for i := 0; i < nf; i++ {
		for j := i; j < nf; j++ {
			addF([][]opSpec{{firstOps[i]}, {firstOps[j]}})
			for l := j; l < nf; l++ {
				addF([][]opSpec{{firstOps[i]}, {firstOps[j]}, {firstOps[l]}})
			}
		}
	}
	for i := 0; i < 4; i++ {
		for j := 0; j < 4; j++ {
			for l := 4; l < nf; l++ {
				addF([][]opSpec{{firstOps[i], firstOps[l]}, {firstOps[j], firstOps[l]}})
			}
		}
	}
	// a look-up THROUGH the module a path lookup returned (four lock acquisitions:
	// in two-thread scenarios, and next to two other operations)
	pg := opSpec{Kind: "PathGet", Name: "a"}
	addM([][]opSpec{{pg}, {pg}})
	for i := 0; i < k; i++ {
		addM([][]opSpec{{pg}, {moduleOps[i]}})
		addM([][]opSpec{{moduleOps[i], pg}, {moduleOps[i]}})
		for j := i; j < k; j++ {
			addM([][]opSpec{{pg}, {moduleOps[i]}, {moduleOps[j]}})
			addM([][]opSpec{{pg}, {moduleOps[i], moduleOps[j]}})
			addM([][]opSpec{{pg}, {moduleOps[j], moduleOps[i]}})
		}
	}
	if thorough {
		for i := 0; i < n*n; i++ {
			for j := i; j < n*n; j++ {
				add([][]opSpec{{alphabet[i/n], alphabet[i%n]}, {alphabet[j/n], alphabet[j%n]}}, 2)
			}
		}
		// 3 threads x 2 ops over the mutating sub-alphabet, preemption bound 2
		for i := 0; i < m*m; i++ {
			for j := i; j < m*m; j++ {
				for k := j; k < m*m; k++ {
					add([][]opSpec{{mutating[i/m], mutating[i%m]}, {mutating[j/m], mutating[j%m]}, {mutating[k/m], mutating[k%m]}}, 2)
				}
			}
		}
	}
	return res
}

// ---------- one execution ----------

type execResult struct {
	verdict  string
	hist     []opRec
	lockset  []string
	blocked  []string
	panicked string
	steps    int
	preempt  int
	trace    []sched.Step
	copyBad  []string
}

// copyInconsistency compares the raw tables of a (private) copy with the
// answers of its API for the names bound in those tables.
func copyInconsistency(c *env.Env) string {
	vm, tm := c.VerifRaw()
	for name, rv := range vm {
		got, err := c.Get(name)
		if err != nil {
			return fmt.Sprintf("the copy's table binds value %q but Get fails: %v", name, err)
		}
		if rv.Kind() == reflect.Int64 {
			if g, ok := got.(int64); !ok || g != rv.Int() {
				return fmt.Sprintf("the copy's table binds %q=%d but Get yields %v", name, rv.Int(), got)
			}
		}
	}
	syms := c.GetValueSymbols()
	if len(syms) != len(vm) {
		return fmt.Sprintf("the copy's table holds %d values but GetValueSymbols lists %d", len(vm), len(syms))
	}
	for name, rt := range tm {
		got, err := c.Type(name)
		if err != nil {
			return fmt.Sprintf("the copy's table binds type %q but Type fails: %v", name, err)
		}
		if got != rt {
			return fmt.Sprintf("the copy's table binds type %q=%v but Type yields %v", name, rt, got)
		}
	}
	if ts := c.GetTypeSymbols(); len(ts) != len(tm) {
		return fmt.Sprintf("the copy's table holds %d types but GetTypeSymbols lists %d", len(tm), len(ts))
	}
	return ""
}

func cell(v int64) reflect.Value {
	x := v
	return reflect.ValueOf(&x).Elem()
}

func initState(cfg int) state {
	s := state{cv: map[string]int64{}, pv: map[string]int64{"a": 1, "q": 7}, ct: map[string]string{}, pt: map[string]string{"a": "int64"}}
	if cfg == 0 {
		s.cv["a"] = 2
	}
	if cfg == 2 {
		s.pv["a"] = 101
		s.cv["a"] = 102
	}
	return s
}

func readVal(v interface{}) string {
	if m, ok := v.(*env.Env); ok {
		return fmt.Sprintf("?module:%p", m) // resolved after the run (opRec.mod)
	}
	if i, ok := v.(int64); ok {
		return fmt.Sprint(i)
	}
	return fmt.Sprintf("?%T:%v", v, v)
}

func dumpEnv(e *env.Env, mods map[*env.Env]int64) (vals string, types string) {
	vm, tm := e.VerifRaw()
	v := map[string]int64{}
	for k, rv := range vm {
		if rv.Kind() == reflect.Int64 {
			v[k] = rv.Int()
		} else if m, ok := rv.Interface().(*env.Env); ok && mods[m] != 0 {
			v[k] = mods[m]
		} else {
			v[k] = -999
		}
	}
	t := map[string]string{}
	for k, rt := range tm {
		t[k] = rt.String()
	}
	return dumpVals(v), dumpTypes(t)
}

func runOnce(sc scenario, ch sched.Chooser, record bool) execResult {
	parent := env.NewEnv()
	parent.DefineValue("a", cell(1))
	parent.DefineType("a", int64(0))
	parent.DefineValue("q", cell(7))
	e := parent.NewEnv()
	if sc.Cfg == 0 {
		e.DefineValue("a", cell(2))
	}
	mods := map[*env.Env]int64{} // module -> its number in the specification
	if sc.Cfg == 2 {
		pm, _ := parent.NewModule("a")
		cm, _ := e.NewModule("a")
		mods[pm], mods[cm] = 101, 102
	}
	s := sched.New(ch)
	s.LockPoints = true
	s.Record = record
	s.Shared = map[*vhook.RWMutex]bool{e.VerifMutex(): true, parent.VerifMutex(): true}
	s.FieldsAll = true // also the fields of modules and copies made during the run
	var clock int64
	var res execResult
	hist := make([][]opRec, len(sc.Threads))
	copies := map[[2]int]*env.Env{}
	for ti, ops := range sc.Threads {
		ti, ops := ti, ops
		s.AddThread(fmt.Sprintf("t%d", ti), func() {
			defer func() {
				if r := recover(); r != nil {
					res.panicked = fmt.Sprintf("T%d: %v", ti, r)
				}
			}()
			for oi, o := range ops {
				clock++
				rec := opRec{Thread: ti, Op: o, Call: clock}
				e := e
				if o.Scope == 1 {
					e = parent
				}
				switch o.Kind {
				case "Define":
					if err := e.DefineValue(o.Name, cell(o.Val)); err != nil {
						rec.Out = "err"
					} else {
						rec.Out = "ok"
					}
				case "DefineGlobal":
					if err := e.DefineGlobalValue(o.Name, cell(o.Val)); err != nil {
						rec.Out = "err"
					} else {
						rec.Out = "ok"
					}
				case "Set":
					if err := e.SetValue(o.Name, cell(o.Val)); err != nil {
						rec.Out = "err"
					} else {
						rec.Out = "ok"
					}
				case "Get":
					v, err := e.Get(o.Name)
					if err != nil {
						rec.Out = "err"
					} else {
						rec.Out = readVal(v)
						rec.mod, _ = v.(*env.Env)
					}
				case "NewModule":
					m, err := e.NewModule(o.Name)
					if err != nil {
						rec.Out = "err"
					} else {
						mods[m] = o.Val
						rec.Out = "ok"
					}
				case "PathGet":
					m, err := e.GetEnvFromPath([]string{o.Name})
					if err != nil {
						rec.Out = "err"
					} else {
						rec.mod = m
						if v, err := m.Get("q"); err != nil {
							rec.suffix = ":undefined"
						} else {
							rec.suffix = ":" + readVal(v)
						}
					}
				case "Path":
					m, err := e.GetEnvFromPath([]string{o.Name})
					if err != nil {
						rec.Out = "err"
					} else {
						rec.Out, rec.mod = "?module", m
					}
				case "Delete":
					e.Delete(o.Name)
					rec.Out = "ok"
				case "DeleteGlobal":
					e.DeleteGlobal(o.Name)
					rec.Out = "ok"
				case "Addr":
					p, err := e.Addr(o.Name)
					if err != nil {
						rec.Out = "err"
					} else if p.Kind() == reflect.Ptr {
						rec.Out = readVal(p.Elem().Interface())
						rec.mod, _ = p.Elem().Interface().(*env.Env)
					} else {
						rec.Out = "?notptr"
					}
				case "DefineType":
					if err := e.DefineType(o.Name, ""); err != nil {
						rec.Out = "err"
					} else {
						rec.Out = "ok"
					}
				case "Type":
					t, err := e.Type(o.Name)
					if err != nil {
						rec.Out = "err"
					} else {
						rec.Out = t.String()
					}
				case "Copy":
					copies[[2]int{ti, oi}] = e.Copy()
					rec.Out = "?copy" // filled in after the run (the copy is private)
				case "GetValueSymbols":
					l := e.GetValueSymbols()
					sort.Strings(l)
					rec.Out = strings.Join(l, ",")
				case "GetTypeSymbols":
					l := e.GetTypeSymbols()
					sort.Strings(l)
					rec.Out = strings.Join(l, ",")
				case "String":
					str := e.String()
					lines := strings.Split(strings.TrimSuffix(str, "\n"), "\n")
					var syms []string
					for _, l := range lines[1:] {
						if i := strings.Index(l, " = "); i >= 0 {
							syms = append(syms, l[:i])
						}
					}
					sort.Strings(syms)
					rec.Out = lines[0] + "|" + strings.Join(syms, ",")
				}
				clock++
				rec.Ret = clock
				hist[ti] = append(hist[ti], rec)
			}
		})
	}
	res.verdict = s.Run(nil)
	res.lockset = s.Violations
	res.blocked = s.Blocked
	res.steps = s.Steps
	res.preempt = s.Preemptions
	res.trace = s.Trace
	for ti := range hist {
		for oi := range hist[ti] {
			if m := hist[ti][oi].mod; m != nil {
				hist[ti][oi].Out = fmt.Sprint(mods[m]) + hist[ti][oi].suffix // 0: a module nobody created
			}
			if c, ok := copies[[2]int{ti, oi}]; ok && c != nil {
				v, t := dumpEnv(c, mods)
				hist[ti][oi].Out = "v{" + v + "}t{" + t + "}"
				// a copy is a consistent snapshot: what its own tables hold must be
				// what its API answers (the copy is private: checked after the run)
				if w, r := c.VerifMutex().Held(); w != 0 || r != 0 {
					res.copyBad = append(res.copyBad, fmt.Sprintf("T%d op %d: the copy's lock was copied while held (writers=%d readers=%d): the copy is born locked", ti, oi, w, r))
				}
				if d := copyInconsistency(c); d != "" {
					res.copyBad = append(res.copyBad, fmt.Sprintf("T%d op %d: %s", ti, oi, d))
				}
			}
		}
		res.hist = append(res.hist, hist[ti]...)
	}
	if res.verdict == sched.OK {
		// final read of the whole state
		cv, ct := dumpEnv(e, mods)
		pv, pt := dumpEnv(parent, mods)
		clock++
		res.hist = append(res.hist, opRec{Thread: len(sc.Threads), Op: opSpec{Kind: "ReadAll"}, Call: clock, Ret: clock + 1,
			Out: "cv{" + cv + "}ct{" + ct + "}pv{" + pv + "}pt{" + pt + "}"})
	}
	return res
}

type replayData struct {
	Scenario scenario `json:"scenario"`
	Choices  []int    `json:"choices"`
}

func run(c *common.Ctx) *common.Result {
	res := common.NewResult()
	scs := scenarios(c.Thorough())
	chainFamily(c, res, len(scs))
	linCache := map[string]bool{}
	for si, sc := range scs {
		if !c.Mine(si) {
			continue
		}
		if c.Expired() {
			res.Cap("soft deadline: not all scenarios explored")
			break
		}
		init := initState(sc.Cfg)
		outcomes := map[string]bool{}
		reported := map[string]bool{}
		st := explore.DFS(explore.Options{Bound: sc.Bound, MaxExecs: 400000}, func(r *explore.Run) bool {
			x := runOnce(sc, r, false)
			res.Add("transitions", int64(x.steps))
			if r.Err != nil {
				res.Note("replay divergence in " + sc.String() + ": " + r.Err.Error())
				res.Cap("replay divergence (machinery)")
				return false
			}
			confirmed := 0 // 0 unknown, 1 the failure replays identically, -1 it does not
			report := func(class, detail string) {
				if reported[class] {
					return
				}
				choices := append([]int{}, r.Choices...)
				if confirmed == 0 {
					// replay the recorded schedule on fresh scopes before trusting the failure
					r2 := &explore.Run{Prefix: choices}
					x2 := runOnce(sc, r2, false)
					if r2.Err == nil && x2.verdict == x.verdict && x2.panicked == x.panicked && fmt.Sprint(x2.lockset) == fmt.Sprint(x.lockset) && fmt.Sprint(x2.copyBad) == fmt.Sprint(x.copyBad) && histString(x2.hist) == histString(x.hist) {
						confirmed = 1
					} else {
						confirmed = -1
						res.Note("a failing execution of " + sc.String() + " did not replay identically: not reported")
						res.Cap("an execution did not replay identically (machinery)")
					}
				}
				if confirmed < 0 {
					return
				}
				reported[class] = true
				res.Violate(common.Violation{Class: class, Case: sc.String(), Detail: detail + " | schedule=" + fmt.Sprint(choices),
					Replay: replayData{Scenario: sc, Choices: choices}})
			}
			if x.panicked != "" {
				report("panic", x.panicked)
			}
			for _, d := range x.copyBad {
				report("copy-inconsistent", d)
			}
			for _, v := range x.lockset {
				// class carries the site so that a different unguarded access is a different finding
				site := v
				if i := strings.LastIndex(v, " at "); i >= 0 {
					site = v[i+4:]
				}
				report("lockset/"+site, v)
			}
			switch x.verdict {
			case sched.Deadlock:
				report("deadlock", "blocked: "+strings.Join(x.blocked, " "))
				return true
			case sched.StepLimit:
				res.Cap("step limit hit in " + sc.String())
				return false
			case sched.Stuck:
				res.Cap("a thread ran without reaching a schedule point: " + sc.String())
				return false
			}
			hk := histString(x.hist)
			outcomes[hk] = true
			ok, seen := linCache[sc.String()+"#"+hk]
			if !seen {
				ok = linearizable(x.hist, init)
				if pc := porcupineCheck(x.hist, init); pc != ok {
					res.Note(fmt.Sprintf("porcupine (%v) and brute force (%v) disagree on %s", pc, ok, hk))
					res.Cap("linearizability checkers disagree (machinery)")
				}
				linCache[sc.String()+"#"+hk] = ok
				res.Add("histories_checked", 1)
			}
			if !ok {
				report("not-linearizable", hk)
			}
			return true
		})
		res.Add("schedules", st.Execs)
		res.Add("scenarios", 1)
		res.Add("states", int64(len(outcomes)))
		res.Max("outcomes_per_scenario", int64(len(outcomes)))
		res.Max("points", int64(st.MaxPoints))
		if st.Capped {
			res.Cap("execution cap hit in " + sc.String())
		}
		if sc.Bound < 0 {
			res.Add("scenarios_unbounded", 1)
		}
		if si%997 == 0 {
			res.Sample(map[string]interface{}{"scenario": sc.String(), "bound": sc.Bound, "schedules": st.Execs, "distinct_histories": len(outcomes)})
		}
		if len(linCache) > 200000 {
			linCache = map[string]bool{}
		}
	}
	return res
}

func coverage(c *common.Ctx, r *common.Result) map[string]interface{} {
	return map[string]interface{}{
		"states":                        r.Counts["states"],
		"transitions":                   r.Counts["transitions"],
		"traces_validated_against_impl": r.Counts["histories_checked"],
		"schedules":                     r.Counts["schedules"],
		"scenarios":                     r.Counts["scenarios"],
		"chain_scenarios":               r.Counts["chain_scenarios"],
		"scenarios_all_interleavings":   r.Counts["scenarios_unbounded"],
		"max_schedule_points":           r.GetMax("points"),
		"max_distinct_histories":        r.GetMax("outcomes_per_scenario"),
		"rule": "scenarios = 2 threads x 1 op, 3 threads x 1 op (all interleavings), 2 threads x 2 ops over the 6-operation mutating sub-alphabet (all interleavings); thorough adds 2 threads x 2 ops over the full alphabet and 3 threads x 2 ops over the mutating sub-alphabet, both with preemption bound 2; over 13 env operations on the shared child scope colliding on key a, from two initial bindings of a; " +
			"plus the chain family: 21 operations applied to DIFFERENT scopes of one chain (root, a module, its child) in pairs (thorough: triples) under every interleaving, checked for deadlock, panic and the lockset invariant only; states = distinct complete call/return histories (with results and a final read of both scopes) observed; transitions = scheduler steps (lock announcements/grants, thread starts) executed on the real env package; every distinct history is checked for linearizability against the sequential spec by brute force and by porcupine",
	}
}

func replayChain(path string) (int, bool) {
	var cr chainReplay
	if _, _, err := common.ReadReplay(path, &cr); err != nil || len(cr.Ops) == 0 {
		return 0, false
	}
	var ops []int
	for _, nm := range cr.Ops {
		for i, o := range chainOps {
			if o.Name == nm {
				ops = append(ops, i)
			}
		}
	}
	r := &explore.Run{Prefix: cr.Choices}
	verdict, blocked, lockset, panicked, _, trace := runChain(ops, r, true)
	for _, st := range trace {
		fmt.Printf("  T%d %s\n", st.Thread, st.What)
	}
	fmt.Printf("ops=%v verdict=%s blocked=%v lockset=%v panic=%q\n", cr.Ops, verdict, blocked, lockset, panicked)
	if verdict != sched.OK || len(lockset) > 0 || panicked != "" {
		return 1, true
	}
	return 0, true
}

func replay(c *common.Ctx, path string) int {
	if rc, ok := replayChain(path); ok {
		return rc
	}
	var rd replayData
	if _, _, err := common.ReadReplay(path, &rd); err != nil {
		fmt.Println("cannot read replay:", err)
		return 2
	}
	var first string
	bad := false
	for round := 0; round < 2; round++ {
		r := &explore.Run{Prefix: rd.Choices}
		x := runOnce(rd.Scenario, r, true)
		if r.Err != nil {
			fmt.Println("replay diverged:", r.Err)
			return 2
		}
		desc := fmt.Sprintf("verdict=%s lockset=%v panic=%q copy=%v history=%s", x.verdict, x.lockset, x.panicked, x.copyBad, histString(x.hist))
		if round == 0 {
			first = desc
			fmt.Println("scenario:", rd.Scenario.String())
			for _, st := range x.trace {
				fmt.Printf("  T%d %s\n", st.Thread, st.What)
			}
			fmt.Println(desc)
			lin := x.verdict == sched.OK && linearizable(x.hist, initState(rd.Scenario.Cfg))
			fmt.Println("linearizable:", lin)
			bad = x.verdict != sched.OK || len(x.lockset) > 0 || x.panicked != "" || len(x.copyBad) > 0 || !lin
		} else if desc != first {
			fmt.Println("NONDETERMINISTIC replay")
			return 2
		}
	}
	if bad {
		return 1
	}
	return 0
}

func init() {
	common.Register(&common.Prop{
		ID: "C13", Level: "model_checking", Sharded: true, Run: run, Coverage: coverage, Replay: replay, Race: raceBody,
		Assumptions: []string{
			"interleavings are explored at lock-acquisition granularity: every Lock/RLock of the (rewritten) scope mutex is a schedule point; code between two lock operations of one thread is atomic, which is sound because the lockset monitor checks that every access to values/types in between happens under the lock",
			"RWMutex shadow semantics: writer excludes all, readers exclude writers, a pending writer blocks new readers (Go's writer preference)",
			"memory-model effects below lock granularity are not modelled; the supplementary free-running -race pass is reported separately and decides nothing",
		},
	})
}
