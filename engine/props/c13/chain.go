package c13

import (
	"fmt"
	"strings"

	"github.com/mattn/anko/env"
	"github.com/mattn/anko/vhook"
	"verif/engine/common"
	"verif/engine/explore"
	"verif/engine/sched"
)

// The last sentence of the property is not restricted to one scope: "no
// combination of concurrent environment operations produces a data race, a
// deadlock ... inside the environment itself".  This family runs operations on
// DIFFERENT scopes of one chain (root, a module of the root, a child of the
// module) at once - chain walks upwards (Set/Get/Addr/DeleteGlobal/DefineGlobal/
// DeepCopy) against path lookups and copies downwards - under every
// interleaving, and checks: no deadlock, no panic, every access to the guarded
// maps under the lock.  Results are NOT checked for linearizability here (the
// atomicity clause quantifies over one shared scope with a read-only parent).

type chainOp struct {
	Name string
	Run  func(root, mod, leaf *env.Env)
}

var chainOps = []chainOp{
	{"m.Set(x)", func(r, m, l *env.Env) { m.Set("x", int64(2)) }},
	{"m.Get(x)", func(r, m, l *env.Env) { m.Get("x") }},
	{"m.Addr(x)", func(r, m, l *env.Env) { m.Addr("x") }},
	{"m.DeleteGlobal(x)", func(r, m, l *env.Env) { m.DeleteGlobal("x") }},
	{"m.DefineGlobal(y)", func(r, m, l *env.Env) { m.DefineGlobal("y", int64(3)) }},
	{"m.Define(k)", func(r, m, l *env.Env) { m.Define("k", int64(4)) }},
	{"m.Type(T)", func(r, m, l *env.Env) { m.Type("T") }},
	{"m.DeepCopy()", func(r, m, l *env.Env) { m.DeepCopy() }},
	{"leaf.Set(x)", func(r, m, l *env.Env) { l.Set("x", int64(5)) }},
	{"leaf.Get(x)", func(r, m, l *env.Env) { l.Get("x") }},
	{"leaf.DeepCopy()", func(r, m, l *env.Env) { l.DeepCopy() }},
	{"leaf.GetEnvFromPath(m)", func(r, m, l *env.Env) { l.GetEnvFromPath([]string{"m"}) }},
	{"root.GetEnvFromPath(m)", func(r, m, l *env.Env) { r.GetEnvFromPath([]string{"m"}) }},
	{"root.GetEnvFromPath(m.sub)", func(r, m, l *env.Env) { r.GetEnvFromPath([]string{"m", "sub"}) }},
	{"root.NewModule(n)", func(r, m, l *env.Env) { r.NewModule("n") }},
	{"root.Define(x)", func(r, m, l *env.Env) { r.Define("x", int64(6)) }},
	{"root.Delete(x)", func(r, m, l *env.Env) { r.Delete("x") }},
	{"root.Copy()", func(r, m, l *env.Env) { r.Copy() }},
	{"root.String()", func(r, m, l *env.Env) { _ = r.String() }},
	{"root.DefineType(T)", func(r, m, l *env.Env) { r.DefineType("T", int64(0)) }},
	{"m.NewModule(sub)", func(r, m, l *env.Env) { m.NewModule("sub") }},
}

type chainReplay struct {
	Ops     []string `json:"ops"`
	Choices []int    `json:"choices"`
}

func runChain(ops []int, ch sched.Chooser, record bool) (verdict string, blocked, lockset []string, panicked string, steps int, trace []sched.Step) {
	root := env.NewEnv()
	root.Define("x", int64(1))
	root.DefineType("T", "")
	mod, _ := root.NewModule("m")
	sub, _ := mod.NewModule("sub")
	_ = sub
	leaf := mod.NewEnv()
	s := sched.New(ch)
	s.LockPoints = true
	s.Record = record
	s.Shared = map[*vhook.RWMutex]bool{root.VerifMutex(): true, mod.VerifMutex(): true, leaf.VerifMutex(): true, sub.VerifMutex(): true}
	for ti, oi := range ops {
		ti, oi := ti, oi
		s.AddThread(fmt.Sprintf("t%d", ti), func() {
			defer func() {
				if r := recover(); r != nil {
					panicked = fmt.Sprintf("T%d %s: %v", ti, chainOps[oi].Name, r)
				}
			}()
			chainOps[oi].Run(root, mod, leaf)
		})
	}
	verdict = s.Run(nil)
	return verdict, s.Blocked, s.Violations, panicked, s.Steps, s.Trace
}

func chainFamily(c *common.Ctx, res *common.Result, base int) {
	n := len(chainOps)
	var groups [][]int
	for i := 0; i < n; i++ {
		for j := i; j < n; j++ {
			groups = append(groups, []int{i, j})
		}
	}
	if c.Thorough() {
		for i := 0; i < n; i++ {
			for j := i; j < n; j++ {
				for k := j; k < n; k++ {
					groups = append(groups, []int{i, j, k})
				}
			}
		}
	}
	for gi, g := range groups {
		if !c.Mine(base + gi) {
			continue
		}
		if c.Expired() {
			res.Cap("soft deadline: chain family not finished")
			return
		}
		var names []string
		for _, oi := range g {
			names = append(names, chainOps[oi].Name)
		}
		cs := "chain root>m>leaf | " + strings.Join(names, " || ")
		reported := map[string]bool{}
		st := explore.DFS(explore.Options{Bound: -1, MaxExecs: 400000}, func(r *explore.Run) bool {
			verdict, blocked, lockset, panicked, steps, _ := runChain(g, r, false)
			res.Add("transitions", int64(steps))
			report := func(class, detail string) {
				if reported[class] {
					return
				}
				// replay before trusting the failure
				r2 := &explore.Run{Prefix: append([]int{}, r.Choices...)}
				v2, _, l2, p2, _, _ := runChain(g, r2, false)
				if r2.Err != nil || v2 != verdict || fmt.Sprint(l2) != fmt.Sprint(lockset) || (p2 == "") != (panicked == "") {
					res.Note("a failing execution of " + cs + " did not replay identically: not reported")
					res.Cap("an execution did not replay identically (machinery)")
					return
				}
				reported[class] = true
				res.Violate(common.Violation{Class: class, Case: cs, Detail: detail + " | schedule=" + fmt.Sprint(r.Choices),
					Replay: chainReplay{Ops: names, Choices: append([]int{}, r.Choices...)}})
			}
			if panicked != "" {
				report("chain/panic", panicked)
			}
			for _, v := range lockset {
				site := v
				if i := strings.LastIndex(v, " at "); i >= 0 {
					site = v[i+4:]
				}
				report("chain/lockset/"+site, v)
			}
			switch verdict {
			case sched.Deadlock:
				report("chain/deadlock", "blocked: "+strings.Join(blocked, " "))
				return false
			case sched.StepLimit, sched.Stuck:
				res.Cap("step limit / stuck in " + cs)
				return false
			}
			return true
		})
		res.Add("schedules", st.Execs)
		res.Add("chain_scenarios", 1)
		res.Add("states", 1)
		if st.Capped {
			res.Cap("execution cap hit in " + cs)
		}
		if gi%53 == 0 {
			res.Sample(map[string]interface{}{"scenario": cs, "schedules": st.Execs, "oracle": "no deadlock, no panic, lockset"})
		}
	}
}
