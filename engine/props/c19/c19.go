// Package c19: core builtins and bundled package tables agree with their Go
// counterparts.  Four exhaustively enumerated spaces:
//
//	range    every 0..4-argument call over a 13-value int64 pool whose
//	         mathematical progression has <= 1000 elements, executed in
//	         crash-isolated child processes (memory-capped, watchdog);
//	builtins every builtin x every value of a script value universe, wrong
//	         argument counts, the typed-slice forms over all short lists,
//	         keys over all maps with <= 3 keys;
//	tables   every entry of env.Packages / env.PackageTypes against a
//	         reference generated from the KEY (tables_gen.go), in the table and
//	         through import().
package c19

import (
	"fmt"

	"verif/engine/common"
)

func run(c *common.Ctx) *common.Result {
	res := common.NewResult()
	checkRange(c, res)
	checkBuiltins(c, res)
	checkTables(c, res)
	checkFresh(c, res)
	checkImportAfterWrites(c, res)
	return res
}

func coverage(c *common.Ctx, r *common.Result) map[string]interface{} {
	return map[string]interface{}{
		"evaluations":         r.Counts["evaluations"],
		"distinct_nontrivial": r.SetSize("nontrivial"),
		"rule": "a case counts as non-trivial when the script parsed, the builtin (or table entry) under test was reached and its result was compared with a determined reference: " +
			"range calls whose reference progression is non-empty; builtin calls whose reference is a value, an allowed set or a required error (cases where the property is silent are executed for 'no panic' only and are NOT counted); " +
			"table entries compared with the Go object named by their key (helpers excluded)",
		"range_calls":              r.Counts["range_calls"],
		"range_nonempty_cases":     r.Counts["range_nonempty_cases"],
		"range_empty_cases":        r.Counts["range_empty_cases"],
		"range_error_cases":        r.Counts["range_error_cases"],
		"range_out_of_scope":       r.Counts["range_calls_out_of_scope"],
		"range_max_len":            r.GetMax("range_len"),
		"range_children_lost":      r.Counts["range_children_lost"],
		"builtin_unary_cases":      r.Counts["builtin_unary_cases"],
		"builtin_count_cases":      r.Counts["builtin_count_cases"],
		"builtin_list_cases":       r.Counts["builtin_list_cases"],
		"builtin_keys_cases":       r.Counts["builtin_keys_cases"],
		"under_determined":         r.Counts["under_determined_only_no_panic"],
		"table_entries":            r.Counts["table_entries"],
		"table_excluded":           r.SetMembers("table_excluded"),
		"table_pointer_forms":      r.SetMembers("table_pointer_forms"),
		"table_unreferenced":       r.Counts["table_unreferenced"],
		"table_compared_functions": r.Counts["table_compared_func"],
		"table_compared_constants": r.Counts["table_compared_const"],
		"table_compared_variables": r.Counts["table_compared_var"],
		"table_compared_types":     r.Counts["table_compared_type"],
		"unbuildable_cases":        r.SetMembers("unbuildable"),
	}
}

func replay(c *common.Ctx, path string) int {
	var rc rcase
	class, cs, err := common.ReadReplay(path, &rc)
	if err != nil {
		fmt.Println("cannot read replay:", err)
		return 2
	}
	one := func() string {
		switch rc.Space {
		case "range":
			return replayRange(rc)
		case "table":
			return replayTable(rc)
		case "fresh":
			return replayFresh(rc)
		}
		cl, d, _, m := evalCase(rc)
		if m != "" {
			return "machinery: " + m
		}
		if cl == "" {
			return ""
		}
		return cl + ": " + d
	}
	first := one()
	second := one()
	fmt.Printf("case: %s (recorded class %s)\n", cs, class)
	if classOf(first) != classOf(second) {
		fmt.Printf("NONDETERMINISTIC replay: %q vs %q\n", first, second)
		return 2
	}
	if first == "" {
		fmt.Println("replay: implementation agrees with the reference")
		return 0
	}
	fmt.Println("divergence:", first)
	return 1
}

func classOf(s string) string {
	for i := 0; i < len(s); i++ {
		if s[i] == ':' {
			return s[:i]
		}
	}
	return s
}

func init() {
	common.Register(&common.Prop{
		ID: "C19", Level: "exploration", Run: run, Coverage: coverage, Replay: replay,
		Assumptions: []string{
			"range: arguments from {0, ±1, ±2, ±3, 7, ±(2^63-1), ±(2^63-2), -2^63}; only calls whose mathematical progression has <= 1000 elements are executed; a call that makes its (memory-capped) child stop or die twice, the second time alone in a fresh child, is reported as not returning",
			"toInt/toFloat are compared on numbers (Go conversion; floats outside the int64 range not compared: implementation-dependent in Go), on the decimal numerals \"12\" \"-3\" \"1.5\" (toInt(\"1.5\") may be 1 or 0), on nil, containers and non-numeric strings (0); \" 1\", \"0x10\", \"1e3\", out-of-range numerals, booleans, functions, channels, pointers and structs are executed but not compared",
			"toString is fmt.Sprint except for []byte (not compared); typeOf/kindOf are not compared on nil; toRune(\"\") is not compared; toBool's mapping is not stated by the property: only 'no panic'",
			"wrong argument type means a type Go itself cannot convert to the parameter type (e.g. bool, map, function for a string parameter); values the VM or Go can convert (integers to string, one-character strings to rune, nil) are under-determined and only required not to panic",
			"typed-slice forms: an element may take Go's conversion result / the zero value, or (strings and numbers) the result of the corresponding scalar builtin; result type and length are always compared",
			"package tables: a type offered as *T under the name of T is accepted and listed (sync); keys that are not exported identifiers of the Go package are listed and excluded; error messages are never compared",
		},
	})
}
