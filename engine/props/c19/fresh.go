package c19

import (
	"fmt"
	"sort"

	"verif/engine/common"
)

// A builtin that returns a container returns a NEW one: what a script does to
// the result of one call must not show in the result of a later call, in the same
// environment or in another one of the process ("range yields the arithmetic
// progression" holds for the second call as for the first).  Every case is the
// history  a = F(args); a[0] = a[1]; F(args)  followed by the same call in a fresh
// environment; both later results are compared with the stated value.
type freshCase struct {
	call string
	want string // fmt %v of the expected result (sorted for keys)
	sort bool
}

func freshCases() []freshCase {
	prog := func(start, stop, step int64) string {
		var out []int64
		for i := start; (step > 0 && i < stop) || (step < 0 && i > stop); i += step {
			out = append(out, i)
		}
		return fmt.Sprint(out)
	}
	cs := []freshCase{
		{call: "keys({\"a\": 1, \"b\": 2})", want: "[a b]", sort: true},
		{call: "toIntSlice([1, 2])", want: "[1 2]"},
		{call: "toFloatSlice([1.5, 2.5])", want: "[1.5 2.5]"},
		{call: "toStringSlice([\"a\", \"b\"])", want: "[a b]"},
		{call: "toBoolSlice([true, false])", want: "[true false]"},
		{call: "toByteSlice(\"ab\")", want: "[97 98]"},
		{call: "toRuneSlice(\"ab\")", want: "[97 98]"},
	}
	for _, n := range []int64{2, 3, 6, 64, 1024, 1025, 4096, 5000} {
		cs = append(cs, freshCase{call: fmt.Sprintf("range(%d)", n), want: prog(0, n, 1)})
	}
	for _, a := range [][3]int64{{0, 3, 1}, {2, 5, 1}, {-2, 2, 1}, {0, 10, 3}, {5, 0, -1}, {10, 0, -3}, {0, 1024, 1}, {1, 4, 1}} {
		cs = append(cs, freshCase{call: fmt.Sprintf("range(%d, %d)", a[0], a[1]), want: prog(a[0], a[1], 1)})
		cs = append(cs, freshCase{call: fmt.Sprintf("range(%d, %d, %d)", a[0], a[1], a[2]), want: prog(a[0], a[1], a[2])})
	}
	return cs
}

func freshRender(v interface{}, sorted bool) string {
	if sorted {
		if l, ok := v.([]interface{}); ok {
			var ss []string
			for _, x := range l {
				ss = append(ss, fmt.Sprint(x))
			}
			sort.Strings(ss)
			return fmt.Sprint(ss)
		}
	}
	return fmt.Sprint(v)
}

// freshOne runs one case; class "" = holds (or nothing to compare).
func freshOne(fc freshCase) (class, cs, detail string, counted bool) {
	e := newEnv()
	first := call(e, fc.call)
	if first.err != nil || first.panic != "" {
		return "", "", "", false // whether this call is defined is decided elsewhere
	}
	if got := freshRender(first.val, fc.sort); got != fc.want {
		return "fresh/first-call", fc.call, "yields " + got + ", stated " + fc.want, true
	}
	mut := call(e, "a = "+fc.call+"\na[0] = a[1]\nb = "+fc.call+"\nb")
	if mut.err != nil || mut.panic != "" {
		return "", "", "", true // writing into the result is not promised for every result type
	}
	if got := freshRender(mut.val, fc.sort); got != fc.want {
		return "fresh/same-environment", "a = " + fc.call + "; a[0] = a[1]; " + fc.call,
			"the second call yields " + got + " after the script wrote into the first result; stated " + fc.want, true
	}
	other := call(newEnv(), fc.call)
	if other.err == nil && other.panic == "" {
		if got := freshRender(other.val, fc.sort); got != fc.want {
			return "fresh/other-environment", "a = " + fc.call + "; a[0] = a[1]  ||  fresh environment: " + fc.call,
				"a fresh environment's call yields " + got + " after another environment's script wrote into its own result; stated " + fc.want, true
		}
	}
	return "", "", "", true
}

func checkFresh(c *common.Ctx, res *common.Result) {
	for _, fc := range freshCases() {
		if fc.want == "[]" {
			continue
		}
		class, cs, detail, counted := freshOne(fc)
		if counted {
			res.Add("evaluations", 1)
			res.Add("fresh_cases", 1)
			res.Distinct("nontrivial", "fresh: "+fc.call)
		}
		if class != "" {
			res.Violate(common.Violation{Class: class, Case: cs, Detail: detail, Replay: rcase{Space: "fresh", Fn: fc.call}})
		}
	}
}

func replayFresh(rc rcase) string {
	for _, fc := range freshCases() {
		if fc.call == rc.Fn {
			if class, _, detail, _ := freshOne(fc); class != "" {
				return class + ": " + detail
			}
			return ""
		}
	}
	return "machinery: unknown fresh case " + rc.Fn
}
