package c19

import (
	"encoding/json"
	"fmt"
	"math"
	"os"
	"reflect"
	"regexp"
	"sort"
	"strconv"
	"strings"
	"time"

	"github.com/mattn/anko/core"
	"github.com/mattn/anko/env"
	"github.com/mattn/anko/vm"
	"verif/engine/common"
	"verif/engine/lib/stepctx"
)

// ---------- the script value universe ----------

type uval struct {
	Name string             // canonical text (used in Case)
	Src  string             // script expression, or
	Make func() interface{} // host value bound with Define
}

// defined (named) types over every basic kind: their type name differs from their kind name
type (
	myBool   bool
	myInt64  int64
	myFloat  float64
	myString string
)

type testStruct struct {
	A int64
	B string
}

func lit(s string) uval { return uval{Name: s, Src: s} }
func host(name string, f func() interface{}) uval {
	return uval{Name: name, Make: f}
}

func universe() []uval {
	u := []uval{
		lit("nil"), lit("true"), lit("false"),
		lit("0"), lit("1"), lit("-1"), lit("2"), lit("7"), lit("12"), lit("97"), lit("255"), lit("256"), lit("26085"),
		lit("2147483647"), lit("2147483648"), lit("-2147483648"), lit("-2147483649"), lit("4294967297"),
		lit("9007199254740993"), lit("9223372036854775807"),
		host("int64(-9223372036854775808)", func() interface{} { return int64(math.MinInt64) }),
		host("int32(5)", func() interface{} { return int32(5) }),
		host("int(3)", func() interface{} { return int(3) }),
		host("uint8(200)", func() interface{} { return uint8(200) }),
		host("uint64(18446744073709551615)", func() interface{} { return uint64(math.MaxUint64) }),
		lit("0.0"), lit("1.5"), lit("-1.5"), lit("2.5"), lit("0.1"), lit("1e3"), lit("-0.0"),
		host("float64(1e300)", func() interface{} { return 1e300 }),
		host("float64(-1e300)", func() interface{} { return -1e300 }),
		host("float64(9.3e18)", func() interface{} { return 9.3e18 }),
		host("float64(9007199254740992)", func() interface{} { return float64(1 << 53) }),
		host("+Inf", func() interface{} { return math.Inf(1) }),
		host("-Inf", func() interface{} { return math.Inf(-1) }),
		host("NaN", func() interface{} { return math.NaN() }),
		host("float32(1.5)", func() interface{} { return float32(1.5) }),
		lit(`""`), lit(`"a"`), lit(`"12"`), lit(`"1.5"`), lit(`"-3"`), lit(`" 1"`), lit(`"0x10"`), lit(`"1e3"`), lit(`"abc"`), lit(`"é日"`),
		lit(`"true"`), lit(`"y"`), lit(`"9223372036854775808"`),
		// decimal numerals with leading zeros (base-10 value), and the digits 8/9 after a zero
		lit(`"0"`), lit(`"010"`), lit(`"0100"`), lit(`"-0755"`), lit(`"00012"`), lit(`"007"`), lit(`"08"`), lit(`"-09"`), lit(`"018"`),
		lit(`"0b11"`), lit(`"+010"`),
		// integer numerals around 2^53, 2^62 and the int64 limits: strconv.ParseInt first, ParseFloat only on failure
		lit(`"9007199254740992"`), lit(`"9007199254740993"`), lit(`"-9007199254740993"`), lit(`"+9007199254740993"`), lit(`"009007199254740993"`),
		lit(`"4611686018427387904"`), lit(`"4611686018427387905"`), lit(`"-4611686018427387905"`),
		lit(`"9223372036854775806"`), lit(`"9223372036854775807"`), lit(`"+9223372036854775807"`), lit(`"0009223372036854775807"`),
		lit(`"-9223372036854775807"`), lit(`"-9223372036854775808"`), lit(`"-9223372036854775809"`), lit(`" 9007199254740993"`), lit(`"9007199254740993 "`),
		lit(`toString(9007199254740993)`), lit(`toString(9223372036854775807)`),
		// values of DEFINED types over the basic kinds, from the host ...
		host("myBool(true)", func() interface{} { return myBool(true) }),
		host("myInt64(5)", func() interface{} { return myInt64(5) }),
		host("myFloat(1.5)", func() interface{} { return myFloat(1.5) }),
		host("myString(ab)", func() interface{} { return myString("ab") }),
		host("time.Duration(1500000000)", func() interface{} { return 1500 * time.Millisecond }),
		host("json.Number(12)", func() interface{} { return json.Number("12") }),
		host("time.Month(3)", func() interface{} { return time.March }),
		host("os.FileMode(0644)", func() interface{} { return os.FileMode(0o644) }),
		host("reflect.Kind(Map)", func() interface{} { return reflect.Map }),
		host("[]time.Duration{1s}", func() interface{} { return []time.Duration{time.Second} }),
		// ... and produced by script expressions
		lit(`toDuration(5)`), lit(`import("time").Second`), lit(`import("time").ParseDuration("3s")[0]`),
		lit(`import("time").March`), lit(`import("time").Friday`), lit(`import("os").ModeDir`),
		lit(`import("time").Since(import("time").Now())`),
		lit("[]"), lit("[1, 2]"), lit(`[1, "a", nil, 1.5]`), lit("[[1], []]"), lit(`["a", "b"]`),
		lit("{}"), lit(`{"a": 1}`), lit(`{"a": 1, "b": "x"}`),
		host("[]int64{1, 2}", func() interface{} { return []int64{1, 2} }),
		host("[]int64{}", func() interface{} { return []int64{} }),
		host("[]float64{1.5}", func() interface{} { return []float64{1.5} }),
		host("[]string{a, b}", func() interface{} { return []string{"a", "b"} }),
		host("[]bool{true}", func() interface{} { return []bool{true} }),
		host("[]byte(ab)", func() interface{} { return []byte("ab") }),
		host("[]rune(é)", func() interface{} { return []rune("é") }),
		host("[2]int64{1, 2}", func() interface{} { return [2]int64{1, 2} }),
		host("map[string]int64{a:1}", func() interface{} { return map[string]int64{"a": 1} }),
		host("map[int64]string{1:x, 2:y}", func() interface{} { return map[int64]string{1: "x", 2: "y"} }),
		lit("func(x) { return x }"),
		host("gofunc(int64) int64", func() interface{} { return func(i int64) int64 { return i } }),
		host("chan int64 (cap 2, 1 queued)", func() interface{} { c := make(chan int64, 2); c <- 1; return c }),
		lit("make(chan string)"),
		host("*int64", func() interface{} { x := int64(5); return &x }),
		host("*struct", func() interface{} { return &testStruct{1, "x"} }),
		host("struct{A:1,B:x}", func() interface{} { return testStruct{1, "x"} }),
	}
	return u
}

func universeByName(name string) (uval, bool) {
	for _, u := range universe() {
		if u.Name == name {
			return u, true
		}
	}
	return uval{}, false
}

// element pool of the lists fed to the typed-slice forms
func elemPool() []uval {
	names := []string{"nil", "true", "false", "0", "1", "97", "-1", "2147483648", "9223372036854775807",
		"1.5", "-1.5", "float64(1e300)", "NaN", `""`, `"a"`, `"12"`, `"1.5"`, `"é日"`, `"010"`, `"-0755"`, `"9007199254740993"`, "time.Duration(1500000000)", "[1, 2]", `{"a": 1}`, "[]byte(ab)"}
	var out []uval
	for _, n := range names {
		u, ok := universeByName(n)
		if !ok {
			panic("elemPool: " + n)
		}
		out = append(out, u)
	}
	return out
}

// key pool of the maps fed to keys
func keyPool() []uval {
	return []uval{lit("1"), lit("2"), lit(`"a"`), lit(`"b"`), lit(`""`), lit("1.5"), lit("true"),
		host("float64(1)", func() interface{} { return float64(1) })}
}

// ---------- running one builtin call ----------

func newEnv() *env.Env {
	e := env.NewEnv()
	core.Import(e)
	return e
}

// valueOf materialises a universe value in e under the name v and returns it.
func valueOf(e *env.Env, u uval) (interface{}, error) {
	if u.Make != nil {
		if err := e.Define("v", u.Make()); err != nil {
			return nil, err
		}
	} else {
		if _, err := vm.ExecuteContext(stepctx.Fuel(10000), e, &vm.Options{Debug: false}, "v = "+u.Src); err != nil {
			return nil, err
		}
	}
	return e.Get("v")
}

type outcome struct {
	val   interface{}
	err   error
	fuel  bool
	panic string
}

func call(e *env.Env, src string) (o outcome) {
	defer func() {
		if r := recover(); r != nil {
			o = outcome{panic: fmt.Sprint(r)}
		}
	}()
	ctx := stepctx.Fuel(10000)
	v, err := vm.ExecuteContext(ctx, e, &vm.Options{Debug: false}, src)
	if err != nil && ctx.Cancelled() {
		return outcome{fuel: true}
	}
	return outcome{val: v, err: err}
}

// ---------- references ----------

type expectation struct {
	mode  int                          // 0 = under-determined (only "no panic"), 1 = error, 2 = value
	check func(got interface{}) string // mode 2: "" when got is what the reference says
	want  string                       // printable reference
}

var (
	skip    = expectation{mode: 0}
	wantErr = expectation{mode: 1, want: "an error"}
)

func wantValue(w interface{}) expectation {
	return expectation{mode: 2, want: fmt.Sprintf("%T(%#v)", w, w), check: func(got interface{}) string {
		if !sameValue(got, w) {
			return fmt.Sprintf("got %T(%#v)", got, got)
		}
		return ""
	}}
}

func wantOneOf(ws ...interface{}) expectation {
	var d []string
	for _, w := range ws {
		d = append(d, fmt.Sprintf("%T(%#v)", w, w))
	}
	return expectation{mode: 2, want: "one of " + strings.Join(d, " | "), check: func(got interface{}) string {
		for _, w := range ws {
			if sameValue(got, w) {
				return ""
			}
		}
		return fmt.Sprintf("got %T(%#v)", got, got)
	}}
}

// sameValue: identical type and value; NaN equals NaN; empty slices equal
// regardless of nil-ness.
func sameValue(a, b interface{}) bool {
	if a == nil || b == nil {
		return a == nil && b == nil
	}
	ra, rb := reflect.ValueOf(a), reflect.ValueOf(b)
	if ra.Type() != rb.Type() {
		return false
	}
	switch ra.Kind() {
	case reflect.Float64, reflect.Float32:
		fa, fb := ra.Float(), rb.Float()
		if math.IsNaN(fa) || math.IsNaN(fb) {
			return math.IsNaN(fa) && math.IsNaN(fb)
		}
		return math.Float64bits(fa) == math.Float64bits(fb)
	case reflect.Slice:
		if ra.Len() != rb.Len() {
			return false
		}
		for i := 0; i < ra.Len(); i++ {
			if !sameValue(ra.Index(i).Interface(), rb.Index(i).Interface()) {
				return false
			}
		}
		return true
	}
	return reflect.DeepEqual(a, b)
}

func kindClass(v interface{}) string {
	if v == nil {
		return "nil"
	}
	rv := reflect.ValueOf(v)
	switch rv.Kind() {
	case reflect.Bool:
		return "bool"
	case reflect.Int, reflect.Int8, reflect.Int16, reflect.Int32, reflect.Int64:
		return "int"
	case reflect.Uint, reflect.Uint8, reflect.Uint16, reflect.Uint32, reflect.Uint64:
		return "uint"
	case reflect.Float32, reflect.Float64:
		return "float"
	case reflect.String:
		return "string"
	case reflect.Slice:
		if rv.Type().Elem().Kind() == reflect.Interface {
			return "list"
		}
		return "typedslice"
	case reflect.Array:
		return "array"
	case reflect.Map:
		return "map"
	case reflect.Func:
		return "func"
	case reflect.Chan:
		return "chan"
	case reflect.Ptr:
		return "ptr"
	case reflect.Struct:
		return "struct"
	}
	return rv.Kind().String()
}

func isContainer(k string) bool {
	return k == "list" || k == "typedslice" || k == "array" || k == "map"
}

// string classes for toInt / toFloat
var (
	decimalIntRe  = regexp.MustCompile(`^[+-]?[0-9]+$`) // leading zeros are still decimal: "010" denotes ten; strconv accepts a sign
	decimalFracs  = map[string]bool{"1.5": true}
	underDetStrs  = map[string]bool{" 1": true, "0x10": true, "0b11": true, "1e3": true, "9223372036854775808": true, "-9223372036854775809": true, " 9007199254740993": true}
	nonNumericStr = map[string]bool{"": true, "a": true, "abc": true, "é日": true, "true": true, "y": true}
)

// isDecimalInt: optional sign, decimal digits (leading zeros allowed),
// representable in int64: exactly what strconv.ParseInt(s, 10, 64) accepts
// without underscores.
func isDecimalInt(s string) bool {
	if !decimalIntRe.MatchString(s) {
		return false
	}
	_, err := strconv.ParseInt(s, 10, 64)
	return err == nil
}

func floatInInt64Range(f float64) bool {
	return !math.IsNaN(f) && !math.IsInf(f, 0) && f > -9.2e18 && f < 9.2e18
}

// refToInt: numbers -> Go's conversion int64(x); decimal numeral strings ->
// strconv; nil, containers, non-numeric strings -> 0.
func refToInt(v interface{}) expectation {
	k := kindClass(v)
	rv := reflect.ValueOf(v)
	switch k {
	case "nil":
		return wantValue(int64(0))
	case "int":
		return wantValue(int64(rv.Int()))
	case "uint":
		return wantValue(int64(rv.Uint()))
	case "float":
		if !floatInInt64Range(rv.Float()) {
			return skip // Go: implementation-dependent result
		}
		return wantValue(int64(rv.Float()))
	case "string":
		if rv.Type() != reflect.TypeOf("") {
			return skip // a defined string type (json.Number): whether it counts as "a string" is not stated
		}
		s := rv.String()
		switch {
		case isDecimalInt(s):
			n, _ := strconv.ParseInt(s, 10, 64)
			return wantValue(n)
		case decimalFracs[s]:
			// two readings of the text: ParseFloat then int64() (what the code
			// does), or "not an integer numeral" -> 0.  Either is accepted.
			f, _ := strconv.ParseFloat(s, 64)
			return wantOneOf(int64(f), int64(0))
		case nonNumericStr[s]:
			return wantValue(int64(0))
		}
		return skip
	}
	if isContainer(k) {
		return wantValue(int64(0))
	}
	return skip // bool, func, chan, ptr, struct: the text is silent
}

func refToFloat(v interface{}) expectation {
	k := kindClass(v)
	rv := reflect.ValueOf(v)
	switch k {
	case "nil":
		return wantValue(float64(0))
	case "int":
		return wantValue(float64(rv.Int()))
	case "uint":
		return wantValue(float64(rv.Uint()))
	case "float":
		return wantValue(float64(rv.Float()))
	case "string":
		if rv.Type() != reflect.TypeOf("") {
			return skip
		}
		s := rv.String()
		switch {
		case isDecimalInt(s), decimalFracs[s]:
			f, _ := strconv.ParseFloat(s, 64)
			return wantValue(f)
		case nonNumericStr[s]:
			return wantValue(float64(0))
		}
		return skip
	}
	if isContainer(k) {
		return wantValue(float64(0))
	}
	return skip
}

func refToString(v interface{}) expectation {
	if _, ok := v.([]byte); ok {
		return skip // the code answers string(b); fmt.Sprint gives [97 98]: both are "Go's formatting" of bytes
	}
	return wantValue(fmt.Sprint(v))
}

func refTypeOf(v interface{}) expectation {
	if v == nil {
		return skip
	}
	return wantValue(reflect.TypeOf(v).String())
}

func refKindOf(v interface{}) expectation {
	if v == nil {
		return skip
	}
	return wantValue(reflect.TypeOf(v).Kind().String())
}

func refLen(v interface{}) expectation {
	switch kindClass(v) {
	case "string", "list", "typedslice", "array", "map", "chan":
		return wantValue(int64(reflect.ValueOf(v).Len()))
	}
	return wantErr
}

func refKeys(v interface{}) expectation {
	if kindClass(v) != "map" {
		return wantErr
	}
	rv := reflect.ValueOf(v)
	var want []string
	for _, k := range rv.MapKeys() {
		want = append(want, fmt.Sprintf("%T(%#v)", k.Interface(), k.Interface()))
	}
	sort.Strings(want)
	return expectation{mode: 2, want: fmt.Sprintf("the %d keys %v in any order", len(want), want), check: func(got interface{}) string {
		l, ok := got.([]interface{})
		if !ok {
			return fmt.Sprintf("got %T", got)
		}
		var have []string
		for _, k := range l {
			have = append(have, fmt.Sprintf("%T(%#v)", k, k))
		}
		sort.Strings(have)
		if fmt.Sprint(have) != fmt.Sprint(want) {
			return fmt.Sprintf("got %v", have)
		}
		return ""
	}}
}

// parameters of Go type string: Go converts integers and byte/rune slices to
// string, so those are not "wrong type"; nil is under-determined.
func stringParamMisuse(k string) bool {
	switch k {
	case "bool", "float", "list", "map", "func", "chan", "ptr", "struct", "array":
		return true
	}
	return false
}

func refToRune(v interface{}) expectation {
	k := kindClass(v)
	if k == "string" {
		s := reflect.ValueOf(v).String()
		if s == "" {
			return skip // Go: []rune("")[0] does not exist
		}
		return wantValue([]rune(s)[0])
	}
	if stringParamMisuse(k) {
		return wantErr
	}
	return skip
}

func refToByteSlice(v interface{}) expectation {
	k := kindClass(v)
	if k == "string" {
		return wantValue([]byte(reflect.ValueOf(v).String()))
	}
	if stringParamMisuse(k) {
		return wantErr
	}
	return skip
}

func refToRuneSlice(v interface{}) expectation {
	k := kindClass(v)
	if k == "string" {
		return wantValue([]rune(reflect.ValueOf(v).String()))
	}
	if stringParamMisuse(k) {
		return wantErr
	}
	return skip
}

func refToChar(v interface{}) expectation {
	k := kindClass(v)
	switch k {
	case "int":
		i := reflect.ValueOf(v).Int()
		if i < math.MinInt32 || i > math.MaxInt32 {
			return skip
		}
		return wantValue(string(rune(i)))
	case "bool", "list", "typedslice", "map", "func", "chan", "ptr", "struct", "array":
		return wantErr
	}
	return skip // floats (Go converts), strings (the VM accepts one-character strings), nil, uint
}

func refToBool(v interface{}) expectation { return skip } // the text does not define toBool's mapping

func refRangeArg(v interface{}) expectation {
	switch kindClass(v) {
	case "bool", "list", "typedslice", "map", "func", "chan", "ptr", "struct", "array":
		return wantErr
	case "string":
		if nonNumericStr[reflect.ValueOf(v).String()] {
			return wantErr
		}
	}
	return skip // numbers are legitimate (covered by the range space), nil and numeric strings under-determined
}

// typed-slice forms ---------------------------------------------------------

// elemAllowed: the values the element may become in a slice of kind T; nil =
// not compared.
func elemAllowed(el interface{}, target string) []interface{} {
	k := kindClass(el)
	rv := reflect.ValueOf(el)
	switch target {
	case "int":
		switch k {
		case "int":
			return []interface{}{rv.Int()}
		case "uint":
			return []interface{}{int64(rv.Uint())}
		case "float":
			if !floatInInt64Range(rv.Float()) {
				return nil
			}
			return []interface{}{int64(rv.Float())}
		case "string":
			ex := refToInt(el)
			if ex.mode != 2 {
				return nil
			}
			// Go cannot convert a string to int64 (zero value), toInt parses it
			out := []interface{}{int64(0)}
			s := rv.String()
			if isDecimalInt(s) {
				n, _ := strconv.ParseInt(s, 10, 64)
				out = append(out, n)
			}
			if decimalFracs[s] {
				f, _ := strconv.ParseFloat(s, 64)
				out = append(out, int64(f))
			}
			return out
		}
		return []interface{}{int64(0)}
	case "float":
		switch k {
		case "int":
			return []interface{}{float64(rv.Int())}
		case "uint":
			return []interface{}{float64(rv.Uint())}
		case "float":
			return []interface{}{rv.Float()}
		case "string":
			s := rv.String()
			out := []interface{}{float64(0)}
			if isDecimalInt(s) || decimalFracs[s] {
				f, _ := strconv.ParseFloat(s, 64)
				out = append(out, f)
			} else if !nonNumericStr[s] {
				return nil
			}
			return out
		}
		return []interface{}{float64(0)}
	case "string":
		switch k {
		case "string":
			return []interface{}{rv.String()}
		case "int":
			i := rv.Int()
			if i < 0 || i > math.MaxInt32 {
				return []interface{}{string(rune(0xFFFD)), fmt.Sprint(el)}
			}
			return []interface{}{string(rune(i)), fmt.Sprint(el)} // Go's string(int) | default formatting
		case "uint":
			return []interface{}{string(rune(rv.Uint())), fmt.Sprint(el)}
		case "typedslice":
			if b, ok := el.([]byte); ok {
				return []interface{}{string(b), fmt.Sprint(el)}
			}
		}
		return []interface{}{"", fmt.Sprint(el)} // zero value | default formatting
	case "bool":
		if k == "bool" {
			return []interface{}{rv.Bool()}
		}
		if k == "nil" || isContainer(k) {
			return []interface{}{false}
		}
		return nil // numbers and strings: toBool's mapping is not defined by the text
	}
	return nil
}

var sliceForms = map[string]struct {
	target string
	typ    reflect.Type
}{
	"toBoolSlice":   {"bool", reflect.TypeOf([]bool{})},
	"toStringSlice": {"string", reflect.TypeOf([]string{})},
	"toIntSlice":    {"int", reflect.TypeOf([]int64{})},
	"toFloatSlice":  {"float", reflect.TypeOf([]float64{})},
}

func refSliceForm(fn string) func(v interface{}) expectation {
	form := sliceForms[fn]
	return func(v interface{}) expectation {
		k := kindClass(v)
		switch k {
		case "list", "typedslice":
		case "nil", "array":
			return skip
		default:
			return wantErr
		}
		rv := reflect.ValueOf(v)
		n := rv.Len()
		allowed := make([][]interface{}, n)
		var desc []string
		for i := 0; i < n; i++ {
			allowed[i] = elemAllowed(rv.Index(i).Interface(), form.target)
			if allowed[i] == nil {
				desc = append(desc, "_")
			} else if len(allowed[i]) == 1 {
				desc = append(desc, fmt.Sprintf("%#v", allowed[i][0]))
			} else {
				desc = append(desc, fmt.Sprintf("%#v", allowed[i]))
			}
		}
		return expectation{mode: 2, want: fmt.Sprintf("%s of length %d: [%s]", form.typ, n, strings.Join(desc, ", ")), check: func(got interface{}) string {
			if got == nil || reflect.TypeOf(got) != form.typ {
				return fmt.Sprintf("got %T(%#v)", got, got)
			}
			g := reflect.ValueOf(got)
			if g.Len() != n {
				return fmt.Sprintf("got length %d: %#v", g.Len(), got)
			}
			for i := 0; i < n; i++ {
				if allowed[i] == nil {
					continue
				}
				ok := false
				for _, a := range allowed[i] {
					if sameValue(g.Index(i).Interface(), a) {
						ok = true
					}
				}
				if !ok {
					return fmt.Sprintf("element %d: got %#v", i, got)
				}
			}
			return ""
		}}
	}
}

// ---------- the builtin table ----------

type builtin struct {
	name  string
	arity int // -1: len (an expression form), handled like arity 1
	ref   func(v interface{}) expectation
}

func builtins() []builtin {
	b := []builtin{
		{"keys", 1, refKeys},
		{"len", 1, refLen},
		{"typeOf", 1, refTypeOf},
		{"kindOf", 1, refKindOf},
		{"toInt", 1, refToInt},
		{"toFloat", 1, refToFloat},
		{"toString", 1, refToString},
		{"toBool", 1, refToBool},
		{"toRune", 1, refToRune},
		{"toChar", 1, refToChar},
		{"toByteSlice", 1, refToByteSlice},
		{"toRuneSlice", 1, refToRuneSlice},
		{"range", 1, refRangeArg},
	}
	for _, n := range []string{"toBoolSlice", "toStringSlice", "toIntSlice", "toFloatSlice"} {
		b = append(b, builtin{n, 1, refSliceForm(n)})
	}
	return b
}

func builtinByName(n string) (builtin, bool) {
	for _, b := range builtins() {
		if b.name == n {
			return b, true
		}
	}
	return builtin{}, false
}

// judge compares an outcome with the expectation.  compared=false: nothing
// beyond "no panic" was decidable.
func judge(fn, kind string, ex expectation, o outcome) (class, detail string, compared bool) {
	if o.panic != "" {
		return "panic/" + fn, "panic escaped the VM: " + o.panic, true
	}
	if o.fuel {
		return "", "", false
	}
	switch ex.mode {
	case 1:
		if o.err == nil {
			return fn + "/expected-error/" + kind, fmt.Sprintf("reference: an error (misuse); implementation returned %T(%#v)", o.val, o.val), true
		}
		return "", "", true
	case 2:
		if o.err != nil {
			return fn + "/unexpected-error/" + kind, fmt.Sprintf("reference: %s; implementation: error %q", ex.want, o.err), true
		}
		if d := ex.check(o.val); d != "" {
			return fn + "/value/" + kind, fmt.Sprintf("reference: %s; implementation: %s", ex.want, d), true
		}
		return "", "", true
	}
	return "", "", false
}

// evalUnary runs fn(v) for the universe value u on a fresh environment.
func evalUnary(b builtin, u uval) (class, detail string, compared bool, machinery string) {
	e := newEnv()
	v, err := valueOf(e, u)
	if err != nil {
		return "", "", false, fmt.Sprintf("universe value %s cannot be built: %v", u.Name, err)
	}
	ex := b.ref(v)
	o := call(e, b.name+"(v)")
	class, detail, compared = judge(b.name, kindClass(v), ex, o)
	return class, detail, compared, ""
}

// evalCount runs fn with n copies of the integer 1 (n = 0 or arity+1; range: 0, 4).
func evalCount(fn string, n int) (class, detail string) {
	e := newEnv()
	args := make([]string, n)
	for i := range args {
		args[i] = "1"
	}
	o := call(e, fn+"("+strings.Join(args, ", ")+")")
	class, detail, _ = judge(fn, fmt.Sprintf("%d-args", n), wantErr, o)
	return
}

// evalList runs a typed-slice form on a host-built list of pool elements.
func evalList(fn string, elems []uval) (class, detail string, compared bool) {
	e := newEnv()
	l := make([]interface{}, len(elems))
	for i, u := range elems {
		ee := newEnv()
		v, err := valueOf(ee, u)
		if err != nil {
			return "", "", false
		}
		l[i] = v
	}
	e.Define("v", l)
	b, _ := builtinByName(fn)
	ex := b.ref(l)
	o := call(e, fn+"(v)")
	return judge(fn, "list", ex, o)
}

// evalKeys runs keys on a map with the given pool keys, in one of three map types.
func evalKeys(mapType string, ks []uval) (class, detail string, compared bool) {
	e := newEnv()
	var m interface{}
	switch mapType {
	case "map[interface{}]interface{}":
		mm := map[interface{}]interface{}{}
		for i, u := range ks {
			v, _ := valueOf(newEnv(), u)
			mm[v] = int64(i)
		}
		m = mm
	case "map[string]interface{}":
		mm := map[string]interface{}{}
		for i, u := range ks {
			v, _ := valueOf(newEnv(), u)
			s, ok := v.(string)
			if !ok {
				return "", "", false
			}
			mm[s] = int64(i)
		}
		m = mm
	case "script-literal":
		var parts []string
		for i, u := range ks {
			parts = append(parts, fmt.Sprintf("%s: %d", u.Src, i))
		}
		if _, err := vm.ExecuteContext(stepctx.Fuel(10000), e, &vm.Options{Debug: false}, "v = {"+strings.Join(parts, ", ")+"}"); err != nil {
			return "", "", false // not a map this syntax can spell
		}
		m, _ = e.Get("v")
		if kindClass(m) != "map" || reflect.ValueOf(m).Len() != len(ks) {
			return "", "", false // evaluating the literal is not this property's business
		}
	}
	if mapType != "script-literal" {
		e.Define("v", m)
	}
	ex := refKeys(m)
	o := call(e, "keys(v)")
	return judge("keys", mapType, ex, o)
}

// ---------- enumeration ----------

type rcase struct {
	Space string   `json:"space"` // unary | count | list | keys | range | table
	Fn    string   `json:"fn,omitempty"`
	Val   string   `json:"val,omitempty"`
	Args  []string `json:"args,omitempty"`
}

func (r rcase) text() string {
	switch r.Space {
	case "unary":
		return r.Fn + "(" + r.Val + ")"
	case "count":
		return r.Fn + " with " + r.Val + " arguments"
	case "list":
		return r.Fn + "([" + strings.Join(r.Args, ", ") + "])"
	case "keys":
		return "keys(" + r.Val + "{" + strings.Join(r.Args, ", ") + "})"
	}
	return fmt.Sprint(r.Space, r.Fn, r.Val, r.Args)
}

func evalCase(r rcase) (class, detail string, compared bool, machinery string) {
	switch r.Space {
	case "unary":
		b, ok := builtinByName(r.Fn)
		u, ok2 := universeByName(r.Val)
		if !ok || !ok2 {
			return "", "", false, "unknown builtin or value"
		}
		return evalUnary(b, u)
	case "count":
		n, _ := strconv.Atoi(r.Val)
		class, detail = evalCount(r.Fn, n)
		return class, detail, true, ""
	case "list":
		var elems []uval
		for _, a := range r.Args {
			u, ok := universeByName(a)
			if !ok {
				return "", "", false, "unknown element"
			}
			elems = append(elems, u)
		}
		class, detail, compared = evalList(r.Fn, elems)
		return class, detail, compared, ""
	case "keys":
		var ks []uval
		for _, a := range r.Args {
			found := false
			for _, u := range keyPool() {
				if u.Name == a {
					ks = append(ks, u)
					found = true
				}
			}
			if !found {
				return "", "", false, "unknown key"
			}
		}
		class, detail, compared = evalKeys(r.Val, ks)
		return class, detail, compared, ""
	}
	return "", "", false, "unknown space"
}

func allBuiltinCases(thorough bool) []rcase {
	var cases []rcase
	us := universe()
	for _, b := range builtins() {
		for _, u := range us {
			if b.name == "range" {
				// in-process only for arguments that must be rejected; numbers,
				// nil and numeric strings could start an unbounded progression
				// and belong to the child-process range space
				v, err := valueOf(newEnv(), u)
				if err != nil || refRangeArg(v).mode != 1 {
					continue
				}
			}
			cases = append(cases, rcase{Space: "unary", Fn: b.name, Val: u.Name})
		}
		if b.name == "range" {
			continue // 0 and 4 arguments are part of the range space (child process)
		}
		cases = append(cases, rcase{Space: "count", Fn: b.name, Val: "0"})
		cases = append(cases, rcase{Space: "count", Fn: b.name, Val: "2"})
	}
	// typed-slice forms over all lists of pool elements
	pool := elemPool()
	maxLen := 2
	if thorough {
		maxLen = 3
	}
	var lists [][]string
	var rec func(cur []string)
	rec = func(cur []string) {
		lists = append(lists, append([]string{}, cur...))
		if len(cur) == maxLen {
			return
		}
		for _, u := range pool {
			rec(append(cur, u.Name))
		}
	}
	rec(nil)
	for _, fn := range []string{"toBoolSlice", "toStringSlice", "toIntSlice", "toFloatSlice"} {
		for _, l := range lists {
			cases = append(cases, rcase{Space: "list", Fn: fn, Args: l})
		}
	}
	// keys over all maps with <= 3 keys of the key pool
	kp := keyPool()
	var subsets [][]string
	var sub func(from int, cur []string)
	sub = func(from int, cur []string) {
		subsets = append(subsets, append([]string{}, cur...))
		if len(cur) == 3 {
			return
		}
		for i := from; i < len(kp); i++ {
			sub(i+1, append(cur, kp[i].Name))
		}
	}
	sub(0, nil)
	for _, mt := range []string{"map[interface{}]interface{}", "map[string]interface{}", "script-literal"} {
		for _, s := range subsets {
			if mt == "script-literal" {
				hostKey := false
				for _, k := range s {
					if strings.HasPrefix(k, "float64(") {
						hostKey = true
					}
				}
				if hostKey {
					continue
				}
			}
			cases = append(cases, rcase{Space: "keys", Fn: "keys", Val: mt, Args: s})
		}
	}
	return cases
}

func checkBuiltins(c *common.Ctx, res *common.Result) {
	cases := allBuiltinCases(c.Thorough())
	type verdict struct {
		class, detail string
		compared      bool
		machinery     string
		done          bool
	}
	out := make([]verdict, len(cases))
	common.ParallelFor(c, len(cases), func(i int) {
		if c.Expired() {
			return
		}
		cl, d, cmp, m := evalCase(cases[i])
		out[i] = verdict{cl, d, cmp, m, true}
	})
	for i, v := range out {
		rc := cases[i]
		if !v.done {
			res.Cap("soft deadline reached in the builtin space")
			continue
		}
		if v.machinery != "" {
			res.Add("builtin_cases_unbuildable", 1)
			res.Distinct("unbuildable", rc.text()+": "+v.machinery)
			continue
		}
		res.Add("evaluations", 1)
		res.Add("builtin_"+rc.Space+"_cases", 1)
		if !v.compared {
			res.Add("under_determined_only_no_panic", 1)
			continue
		}
		res.Distinct("nontrivial", rc.text())
		res.Add("compared_"+rc.Fn, 1)
		if v.class != "" {
			res.Violate(common.Violation{Class: v.class, Case: rc.text(), Detail: v.detail, Replay: rc})
		}
	}
	for _, s := range []rcase{
		{Space: "unary", Fn: "toInt", Val: `"-3"`}, {Space: "unary", Fn: "toString", Val: "1.5"},
		{Space: "unary", Fn: "len", Val: `"é日"`},
		{Space: "list", Fn: "toIntSlice", Args: []string{"1.5", `"a"`}}, {Space: "keys", Fn: "keys", Val: "map[interface{}]interface{}", Args: []string{"1", `"a"`, "1.5"}},
		{Space: "unary", Fn: "toRune", Val: "true"},
	} {
		res.Sample(sampleOf(s))
	}
}

// sampleOf re-executes one case and writes out what was compared.
func sampleOf(rc rcase) map[string]interface{} {
	m := map[string]interface{}{"space": rc.Space, "case": rc.text()}
	switch rc.Space {
	case "unary":
		b, _ := builtinByName(rc.Fn)
		u, _ := universeByName(rc.Val)
		e := newEnv()
		v, _ := valueOf(e, u)
		ex := b.ref(v)
		o := call(e, b.name+"(v)")
		m["reference"] = ex.want
		if o.err != nil {
			m["implementation"] = "error: " + o.err.Error()
		} else {
			m["implementation"] = fmt.Sprintf("%T(%#v)", o.val, o.val)
		}
	default:
		cl, d, _, _ := evalCase(rc)
		if cl == "" {
			m["result"] = "agrees with the reference"
		} else {
			m["result"] = cl + ": " + d
		}
	}
	return m
}
