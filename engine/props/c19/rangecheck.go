package c19

import (
	"bufio"
	"encoding/json"
	"fmt"
	"io"
	"math"
	"math/big"
	"os"
	"runtime/metrics"
	"strconv"
	"strings"
	"sync"
	"syscall"
	"time"

	"github.com/mattn/anko/core"
	"github.com/mattn/anko/env"
	"github.com/mattn/anko/vm"
	"verif/engine/common"
	"verif/engine/lib/stepctx"
)

// ---------- the space ----------

var rangePool = []int64{
	0, 1, -1, 2, -2, 3, -3, 7,
	math.MaxInt64, -math.MaxInt64, math.MaxInt64 - 1, -(math.MaxInt64 - 1), math.MinInt64,
}

// thorough adds values that make the <= 1000 bound bite (progressions of up to
// 1000 elements, also directly below/above the int64 limits).
var rangePoolExtra = []int64{1000, -999, math.MaxInt64 - 1000, math.MinInt64 + 1000}

const rangeMaxLen = 1000

// rangeWant is the reference: the mathematical progression (math/big).
// wantErr: zero step or wrong argument count.  inScope=false: more than
// rangeMaxLen elements (not executed at all).
func rangeWant(args []int64) (elems []int64, wantErr, inScope bool) {
	if len(args) == 0 || len(args) > 3 {
		return nil, true, true
	}
	start, stop, step := big.NewInt(0), big.NewInt(0), big.NewInt(1)
	switch len(args) {
	case 1:
		stop.SetInt64(args[0])
	case 2:
		start.SetInt64(args[0])
		stop.SetInt64(args[1])
	case 3:
		start.SetInt64(args[0])
		stop.SetInt64(args[1])
		step.SetInt64(args[2])
	}
	if step.Sign() == 0 {
		return nil, true, true
	}
	// n = ceil((stop-start)/step) when the step points towards stop, else 0
	diff := new(big.Int).Sub(stop, start)
	if diff.Sign() == 0 || diff.Sign() != step.Sign() {
		return []int64{}, false, true
	}
	absd := new(big.Int).Abs(diff)
	abss := new(big.Int).Abs(step)
	n := new(big.Int).Add(absd, new(big.Int).Sub(abss, big.NewInt(1)))
	n.Quo(n, abss)
	if n.Cmp(big.NewInt(rangeMaxLen)) > 0 {
		return nil, false, false
	}
	cnt := int(n.Int64())
	elems = make([]int64, 0, cnt)
	cur := new(big.Int).Set(start)
	for i := 0; i < cnt; i++ {
		elems = append(elems, cur.Int64()) // always inside [start, stop): representable
		cur.Add(cur, step)
	}
	return elems, false, true
}

func rangeCaseText(args []int64) string {
	parts := make([]string, len(args))
	for i, a := range args {
		parts[i] = strconv.FormatInt(a, 10)
	}
	return "range(" + strings.Join(parts, ", ") + ")"
}

// allRangeCalls enumerates the complete space in a fixed order.
func allRangeCalls(thorough bool) (calls [][]int64, outOfScope int) {
	rangePool := rangePool
	if thorough {
		rangePool = append(append([]int64{}, rangePool...), rangePoolExtra...)
	}
	add := func(a []int64) {
		if _, _, in := rangeWant(a); in {
			calls = append(calls, a)
		} else {
			outOfScope++
		}
	}
	add([]int64{})
	for _, a := range rangePool {
		add([]int64{a})
	}
	for _, a := range rangePool {
		for _, b := range rangePool {
			add([]int64{a, b})
		}
	}
	for _, a := range rangePool {
		for _, b := range rangePool {
			for _, s := range rangePool {
				add([]int64{a, b, s})
			}
		}
	}
	add([]int64{1, 2, 3, 4})
	add([]int64{0, 7, 1, 1})
	return
}

// ---------- the child: executes range calls, one JSON line in, one out ----------

type rangeReq struct {
	Args []string `json:"args"`
}

type rangeResp struct {
	Err    bool     `json:"err,omitempty"`
	ErrMsg string   `json:"msg,omitempty"`
	Panic  string   `json:"panic,omitempty"`
	Type   string   `json:"type,omitempty"`
	Vals   []string `json:"vals,omitempty"`
	Fuel   bool     `json:"fuel,omitempty"`
	MemCap int64    `json:"memcap,omitempty"` // last words of a child that stopped itself

	noReturn bool   // parent side: the call did not come back, twice
	mech     string // parent side: how the child ended
}

const (
	childASLimit  = 4 << 30  // hard cap: RLIMIT_AS
	childHeapStop = 16 << 20 // the child stops itself when its heap passes this: a result of <= 1000 int64 never needs it
	batchWatchdog = 60 * time.Second
)

func rangeChild() {
	_ = syscall.Setrlimit(syscall.RLIMIT_AS, &syscall.Rlimit{Cur: childASLimit, Max: childASLimit})
	out := bufio.NewWriter(os.Stdout)
	var outMu sync.Mutex
	go func() {
		s := []metrics.Sample{{Name: "/memory/classes/heap/objects:bytes"}}
		for {
			time.Sleep(time.Millisecond)
			metrics.Read(s)
			if h := s[0].Value.Uint64(); h > childHeapStop {
				outMu.Lock()
				b, _ := json.Marshal(rangeResp{MemCap: int64(h)})
				out.Write(b)
				out.WriteByte('\n')
				out.Flush()
				os.Exit(3)
			}
		}
	}()
	in := bufio.NewReader(os.Stdin)
	for {
		line, err := in.ReadString('\n')
		if line != "" {
			var rq rangeReq
			if json.Unmarshal([]byte(line), &rq) != nil {
				os.Exit(2)
			}
			resp := execRange(rq)
			b, _ := json.Marshal(resp)
			outMu.Lock()
			out.Write(b)
			out.WriteByte('\n')
			out.Flush()
			outMu.Unlock()
		}
		if err != nil {
			return
		}
	}
}

func execRange(rq rangeReq) (resp rangeResp) {
	defer func() {
		if r := recover(); r != nil {
			resp = rangeResp{Panic: fmt.Sprint(r)}
		}
	}()
	e := env.NewEnv()
	core.Import(e)
	names := make([]string, len(rq.Args))
	for i, a := range rq.Args {
		n, err := strconv.ParseInt(a, 10, 64)
		if err != nil {
			os.Exit(2)
		}
		names[i] = fmt.Sprintf("a%d", i)
		e.Define(names[i], n)
	}
	ctx := stepctx.Fuel(10000)
	v, err := vm.ExecuteContext(ctx, e, &vm.Options{Debug: false}, "range("+strings.Join(names, ", ")+")")
	if err != nil {
		if ctx.Cancelled() {
			return rangeResp{Fuel: true}
		}
		return rangeResp{Err: true, ErrMsg: err.Error()}
	}
	resp.Type = fmt.Sprintf("%T", v)
	if s, ok := v.([]int64); ok {
		if len(s) > 4*rangeMaxLen {
			resp.Vals = []string{fmt.Sprintf("<%d elements>", len(s))}
			return resp
		}
		resp.Vals = make([]string, len(s))
		for i, x := range s {
			resp.Vals[i] = strconv.FormatInt(x, 10)
		}
	}
	return resp
}

// ---------- the parent ----------

// runRangeChild feeds calls to one child; returns how many were answered and
// how the child ended when it did not answer all of them.
func runRangeChild(calls [][]int64, out []rangeResp) (answered int, mech string) {
	cmd := common.SpawnChild("c19range")
	cmd.Env = append(cmd.Env, "GOMAXPROCS=2")
	stdin, err := cmd.StdinPipe()
	if err != nil {
		return 0, "machinery: " + err.Error()
	}
	stdout, err := cmd.StdoutPipe()
	if err != nil {
		return 0, "machinery: " + err.Error()
	}
	cmd.Stderr = io.Discard
	if err := cmd.Start(); err != nil {
		return 0, "machinery: " + err.Error()
	}
	go func() {
		w := bufio.NewWriter(stdin)
		for _, a := range calls {
			rq := rangeReq{Args: make([]string, len(a))}
			for i, x := range a {
				rq.Args[i] = strconv.FormatInt(x, 10)
			}
			b, _ := json.Marshal(rq)
			w.Write(b)
			w.WriteByte('\n')
		}
		w.Flush()
		stdin.Close()
	}()
	var timedOut bool
	var tmu sync.Mutex
	timer := time.AfterFunc(batchWatchdog, func() {
		tmu.Lock()
		timedOut = true
		tmu.Unlock()
		cmd.Process.Kill()
	})
	defer timer.Stop()
	rd := bufio.NewReaderSize(stdout, 1<<20)
	for answered < len(calls) {
		line, err := rd.ReadString('\n')
		if err != nil {
			break
		}
		var r rangeResp
		if json.Unmarshal([]byte(line), &r) != nil {
			mech = "machinery: unreadable answer"
			break
		}
		if r.MemCap > 0 {
			mech = fmt.Sprintf("the call kept allocating: the child stopped itself at %d MiB of heap", r.MemCap>>20)
			break
		}
		out[answered] = r
		answered++
	}
	if answered < len(calls) {
		cmd.Process.Kill()
	}
	werr := cmd.Wait()
	if answered < len(calls) && mech == "" {
		tmu.Lock()
		to := timedOut
		tmu.Unlock()
		if to {
			mech = fmt.Sprintf("no answer within the %s watchdog; child killed", batchWatchdog)
		} else {
			mech = fmt.Sprintf("the child died (%v)", werr)
		}
	}
	return answered, mech
}

// runRangeCalls executes all calls, crash-isolated; a call in flight when a
// child ends is re-run alone in a fresh child before it is attributed.
func runRangeCalls(calls [][]int64, res *common.Result) []rangeResp {
	out := make([]rangeResp, len(calls))
	i := 0
	for i < len(calls) {
		n, mech := runRangeChild(calls[i:], out[i:])
		i += n
		if i >= len(calls) {
			break
		}
		if strings.HasPrefix(mech, "machinery") {
			fmt.Fprintln(os.Stderr, "c19: range child:", mech)
			os.Exit(2)
		}
		res.Add("range_children_lost", 1)
		m, mech2 := runRangeChild(calls[i:i+1], out[i:i+1])
		if m == 0 {
			if strings.HasPrefix(mech2, "machinery") {
				fmt.Fprintln(os.Stderr, "c19: range child:", mech2)
				os.Exit(2)
			}
			out[i] = rangeResp{noReturn: true, mech: mech2}
		} else {
			res.Note(fmt.Sprintf("%s: child ended in the batch (%s) but the call returned when run alone", rangeCaseText(calls[i]), mech))
		}
		i++
	}
	return out
}

// judgeRange turns one answer into a verdict ("" = as the reference says).
func judgeRange(args []int64, r rangeResp) (class, detail string, outside bool) {
	want, wantErr, _ := rangeWant(args)
	switch {
	case r.noReturn:
		return "range/no-return", fmt.Sprintf("reference: %s; implementation did not return: %s", describeWant(want, wantErr), r.mech), false
	case r.Fuel:
		return "", "", true
	case r.Panic != "":
		return "panic/range", "panic escaped the VM: " + r.Panic, false
	case wantErr:
		if !r.Err {
			return "range/expected-error", fmt.Sprintf("reference: error; implementation returned %s %v", r.Type, r.Vals), false
		}
		return "", "", false
	case r.Err:
		return "range/unexpected-error", fmt.Sprintf("reference: %s; implementation: error %q", describeWant(want, false), r.ErrMsg), false
	}
	if r.Type != "[]int64" {
		return "range/type", fmt.Sprintf("result has type %s, want []int64", r.Type), false
	}
	if len(r.Vals) != len(want) {
		return "range/elements", fmt.Sprintf("reference: %s; implementation: %d elements %s", describeWant(want, false), len(r.Vals), abbrev(r.Vals)), false
	}
	for i, w := range want {
		if r.Vals[i] != strconv.FormatInt(w, 10) {
			return "range/elements", fmt.Sprintf("reference: %s; implementation: %s (element %d differs)", describeWant(want, false), abbrev(r.Vals), i), false
		}
	}
	return "", "", false
}

func describeWant(want []int64, wantErr bool) string {
	if wantErr {
		return "error"
	}
	s := make([]string, len(want))
	for i, w := range want {
		s[i] = strconv.FormatInt(w, 10)
	}
	return fmt.Sprintf("%d elements %s", len(want), abbrev(s))
}

func abbrev(s []string) string {
	if len(s) <= 6 {
		return "[" + strings.Join(s, " ") + "]"
	}
	return "[" + strings.Join(s[:3], " ") + " ... " + strings.Join(s[len(s)-2:], " ") + "]"
}

func checkRange(c *common.Ctx, res *common.Result) {
	calls, outOfScope := allRangeCalls(c.Thorough())
	res.Add("range_calls_out_of_scope", int64(outOfScope))
	// contiguous chunks, one child each, c.J at a time
	nchunks := c.J * 2
	if nchunks < 1 {
		nchunks = 1
	}
	per := (len(calls) + nchunks - 1) / nchunks
	answers := make([][]rangeResp, nchunks)
	var capped bool
	var mu sync.Mutex
	common.ParallelFor(c, nchunks, func(k int) {
		lo, hi := k*per, (k+1)*per
		if lo > len(calls) {
			lo = len(calls)
		}
		if hi > len(calls) {
			hi = len(calls)
		}
		if c.Expired() {
			mu.Lock()
			capped = true
			mu.Unlock()
			return
		}
		answers[k] = runRangeCalls(calls[lo:hi], res)
	})
	if capped {
		res.Cap("soft deadline reached in the range space")
	}
	for k := 0; k < nchunks; k++ {
		lo := k * per
		for j, r := range answers[k] {
			args := calls[lo+j]
			res.Add("evaluations", 1)
			res.Add("range_calls", 1)
			class, detail, outside := judgeRange(args, r)
			if outside {
				res.Add("fuel_exhausted", 1)
				continue
			}
			want, wantErr, _ := rangeWant(args)
			if !wantErr && len(want) > 0 {
				res.Distinct("nontrivial", rangeCaseText(args))
				res.Max("range_len", int64(len(want)))
			}
			if wantErr {
				res.Add("range_error_cases", 1)
			} else if len(want) == 0 {
				res.Add("range_empty_cases", 1)
			} else {
				res.Add("range_nonempty_cases", 1)
			}
			if class != "" {
				res.Violate(common.Violation{Class: class, Case: rangeCaseText(args), Detail: detail,
					Replay: rcase{Space: "range", Args: fmtInts(args)}})
			} else if len(args) == 3 && args[0] == -3 && args[1] == 7 && args[2] == 3 || len(args) == 3 && args[0] == math.MaxInt64 && args[1] == math.MaxInt64-1 && args[2] == -1 ||
				len(args) == 3 && args[0] == 7 && args[1] == -3 && args[2] == 2 {
				res.Sample(map[string]interface{}{"space": "range", "call": rangeCaseText(args), "result": describeWant(want, wantErr)})
			}
		}
	}
}

func fmtInts(a []int64) []string {
	s := make([]string, len(a))
	for i, x := range a {
		s[i] = strconv.FormatInt(x, 10)
	}
	return s
}

func replayRange(rc rcase) string {
	args := make([]int64, len(rc.Args))
	for i, s := range rc.Args {
		n, err := strconv.ParseInt(s, 10, 64)
		if err != nil {
			return "replay: bad argument (machinery)"
		}
		args[i] = n
	}
	if _, _, in := rangeWant(args); !in {
		return "replay: call outside the bounded space (machinery)"
	}
	out := make([]rangeResp, 1)
	if n, mech := runRangeChild([][]int64{args}, out); n == 0 {
		out[0] = rangeResp{noReturn: true, mech: mech}
	}
	class, detail, _ := judgeRange(args, out[0])
	if class == "" {
		return ""
	}
	return class + ": " + detail
}

func init() { common.RegisterChild("c19range", rangeChild) }
