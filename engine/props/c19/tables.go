package c19

import (
	"fmt"
	"reflect"
	"runtime"
	"sort"
	"strings"

	"github.com/mattn/anko/env"
	_ "github.com/mattn/anko/packages" // fills env.Packages / env.PackageTypes
	"github.com/mattn/anko/vm"
	"verif/engine/common"
)

// genEntry is one line of the generated reference table (tables_gen.go).
type genEntry struct {
	Pkg, Key string
	Table    string // "V" = env.Packages, "T" = env.PackageTypes
	Cat      string // func | const | var | type | helper | nopkg
	Why      string // reason of an exclusion
	Ref      reflect.Value
	RefType  reflect.Type
}

func (g genEntry) name() string { return g.Pkg + "." + g.Key }

// cmpValue compares a stored table value with the reference derived from the key.
// ptrForm reports a type stored as *T under the name of T.
func cmpValue(g genEntry, stored reflect.Value) (law, detail string) {
	defer func() {
		if r := recover(); r != nil {
			law, detail = "compare-panic", fmt.Sprint(r)
		}
	}()
	if !stored.IsValid() {
		return "invalid", "stored value is the zero reflect.Value"
	}
	switch g.Cat {
	case "func":
		if stored.Kind() != reflect.Func {
			return "func-identity", fmt.Sprintf("stored value has kind %s, Go's %s is a function", stored.Kind(), g.name())
		}
		if stored.Type() != g.Ref.Type() {
			return "func-identity", fmt.Sprintf("stored function has type %s, Go's %s has type %s", stored.Type(), g.name(), g.Ref.Type())
		}
		if stored.Pointer() != g.Ref.Pointer() {
			return "func-identity", fmt.Sprintf("stored function is not Go's %s (code pointer %#x, want %#x)", g.name(), stored.Pointer(), g.Ref.Pointer())
		}
	case "const":
		if stored.Type() != g.Ref.Type() {
			return "const-value", fmt.Sprintf("stored value has type %s, Go's constant %s has type %s", stored.Type(), g.name(), g.Ref.Type())
		}
		if stored.Interface() != g.Ref.Interface() {
			return "const-value", fmt.Sprintf("stored value %v, Go's constant %s = %v", stored.Interface(), g.name(), g.Ref.Interface())
		}
	case "var":
		cur := g.Ref.Elem() // the Go variable itself (addressable)
		if cur.Kind() == reflect.Interface {
			if cur.IsNil() {
				return "", "" // nothing to compare
			}
			cur = cur.Elem()
		}
		if stored.Kind() == reflect.Interface && !stored.IsNil() {
			stored = stored.Elem()
		}
		if stored.Type() != cur.Type() {
			return "var-identity", fmt.Sprintf("stored value has type %s, Go's variable %s holds %s", stored.Type(), g.name(), cur.Type())
		}
		switch cur.Kind() {
		case reflect.Ptr, reflect.Map, reflect.Chan, reflect.Func, reflect.UnsafePointer:
			if stored.Pointer() != cur.Pointer() {
				return "var-identity", fmt.Sprintf("stored value does not point where Go's variable %s points", g.name())
			}
		case reflect.Slice:
			if stored.Pointer() != cur.Pointer() || stored.Len() != cur.Len() {
				return "var-identity", fmt.Sprintf("stored slice is not the slice held by Go's variable %s", g.name())
			}
		default:
			if !reflect.DeepEqual(stored.Interface(), cur.Interface()) {
				return "var-identity", fmt.Sprintf("stored value %v differs from Go's variable %s = %v", stored.Interface(), g.name(), cur.Interface())
			}
		}
	default:
		return "category", fmt.Sprintf("key is in the value table but Go's %s is a %s", g.name(), g.Cat)
	}
	return "", ""
}

func cmpType(g genEntry, stored reflect.Type) (law, detail string, ptrForm bool) {
	if stored == nil {
		return "invalid", "stored type is nil", false
	}
	if g.Cat != "type" {
		return "category", fmt.Sprintf("key is in the type table but Go's %s is a %s", g.name(), g.Cat), false
	}
	if stored == g.RefType {
		return "", "", false
	}
	if stored.Kind() == reflect.Ptr && stored.Elem() == g.RefType {
		// the Go type named by the key, offered through a pointer (documented in
		// packages/sync.go: lock-holding types must not be copied)
		return "", "", true
	}
	return "type-identity", fmt.Sprintf("stored type is %s, Go's %s is %s", stored, g.name(), g.RefType), false
}

// checkTables: (a) every entry of env.Packages / env.PackageTypes against the
// key-derived reference; (b) what `import("pkg")` hands to a script against the
// same reference; (c) key-set synchronisation of the generated table.
func checkTables(c *common.Ctx, res *common.Result) {
	ref := map[string]genEntry{}
	for _, g := range genTable {
		ref[g.Table+"|"+g.Pkg+"|"+g.Key] = g
	}

	// (c) synchronisation, both directions
	var unref, stale []string
	var pkgs []string
	seenPkg := map[string]bool{}
	for p := range env.Packages {
		seenPkg[p] = true
	}
	for p := range env.PackageTypes {
		seenPkg[p] = true
	}
	for p := range seenPkg {
		pkgs = append(pkgs, p)
	}
	sort.Strings(pkgs)
	for _, p := range pkgs {
		for k := range env.Packages[p] {
			if _, ok := ref["V|"+p+"|"+k]; !ok {
				unref = append(unref, "V "+p+"."+k)
			}
		}
		for k := range env.PackageTypes[p] {
			if _, ok := ref["T|"+p+"|"+k]; !ok {
				unref = append(unref, "T "+p+"."+k)
			}
		}
	}
	sort.Strings(unref)

	// what import() offers, per package
	type imported struct {
		mod *env.Env
		err string
	}
	imp := map[string]imported{}
	for _, p := range pkgs {
		func() {
			defer func() {
				if r := recover(); r != nil {
					imp[p] = imported{err: fmt.Sprintf("panic: %v", r)}
				}
			}()
			e := env.NewEnv()
			_, err := vm.Execute(e, &vm.Options{Debug: false}, fmt.Sprintf("m = import(%q)", p))
			if err != nil {
				imp[p] = imported{err: err.Error()}
				return
			}
			m, _ := e.Get("m")
			mod, ok := m.(*env.Env)
			if !ok {
				imp[p] = imported{err: fmt.Sprintf("import returned %T", m)}
				return
			}
			imp[p] = imported{mod: mod}
			// the module offers exactly the table's keys
			vs := mod.GetValueSymbols()
			sort.Strings(vs)
			var want []string
			for k := range env.Packages[p] {
				want = append(want, k)
			}
			sort.Strings(want)
			if fmt.Sprint(vs) != fmt.Sprint(want) {
				res.Violate(common.Violation{Class: "import/value-symbols", Case: p, Detail: fmt.Sprintf("import(%q) defines %v, table has %v", p, vs, want), Replay: rcase{Space: "table", Fn: p}})
			}
			ts := mod.GetTypeSymbols()
			sort.Strings(ts)
			want = nil
			for k := range env.PackageTypes[p] {
				want = append(want, k)
			}
			sort.Strings(want)
			if fmt.Sprint(ts) != fmt.Sprint(want) {
				res.Violate(common.Violation{Class: "import/type-symbols", Case: p, Detail: fmt.Sprintf("import(%q) defines types %v, table has %v", p, ts, want), Replay: rcase{Space: "table", Fn: p}})
			}
		}()
		res.Add("evaluations", 1)
		res.Add("import_calls", 1)
		if imp[p].err != "" {
			res.Violate(common.Violation{Class: "import/failed", Case: p, Detail: imp[p].err, Replay: rcase{Space: "table", Fn: p}})
		}
	}

	for _, g := range genTable {
		res.Add("evaluations", 1)
		res.Add("table_entries", 1)
		var present bool
		var sv reflect.Value
		var st reflect.Type
		if g.Table == "V" {
			sv, present = env.Packages[g.Pkg][g.Key]
		} else {
			st, present = env.PackageTypes[g.Pkg][g.Key]
		}
		if !present {
			stale = append(stale, g.Table+" "+g.name())
			continue
		}
		if g.Cat == "helper" || g.Cat == "nopkg" {
			res.Add("table_excluded", 1)
			res.Distinct("table_excluded", g.Table+" "+g.name()+": "+g.Why)
			continue
		}
		v := checkEntry(g, sv, st, imp[g.Pkg].mod, res)
		if v != nil {
			res.Violate(*v)
		} else {
			res.Add("table_compared_"+g.Cat, 1)
			res.Distinct("nontrivial", "table "+g.Table+" "+g.name())
			if n := g.name(); n == "strings.ToLower" || n == "time.Duration" || n == "os.Args" {
				res.Sample(map[string]interface{}{"space": "table", "entry": g.name(), "category": g.Cat, "result": "identical to the Go object of that name, in the table and through import()"})
			}
		}
	}
	sort.Strings(stale)
	// keys the generated reference does not know (added after it was generated): a
	// function entry can still be judged by the symbol its code pointer belongs to -
	// it must be the function of the package that the key names
	for _, p := range pkgs {
		for k, stored := range env.Packages[p] {
			if _, ok := ref["V|"+p+"|"+k]; ok || !stored.IsValid() || stored.Kind() != reflect.Func {
				continue
			}
			fn := runtime.FuncForPC(stored.Pointer())
			if fn == nil {
				continue
			}
			name, want := fn.Name(), p+"."+k
			res.Add("evaluations", 1)
			res.Add("table_unreferenced_funcs_judged_by_symbol", 1)
			if name != want && strings.HasPrefix(name, p+".") && !strings.ContainsAny(name[len(p)+1:], ".()") {
				res.Violate(common.Violation{Class: "table/func-name", Case: want, Detail: fmt.Sprintf("the entry %s holds the function %s", want, name), Replay: rcase{Space: "table", Fn: p}})
			}
		}
	}
	if len(unref) > 0 {
		res.Add("table_unreferenced", int64(len(unref)))
		res.Note(fmt.Sprintf("table keys without a generated reference (regenerate props/c19/tables_gen.go): %v", unref))
		res.Cap(fmt.Sprintf("%d package-table keys have no generated reference", len(unref)))
	}
	if len(stale) > 0 {
		res.Note(fmt.Sprintf("generated references whose key is no longer in the tables: %v", stale))
		res.Cap(fmt.Sprintf("%d generated references have no table key", len(stale)))
	}
}

// checkEntry compares one present, referenced entry in the table and through import().
func checkEntry(g genEntry, sv reflect.Value, st reflect.Type, mod *env.Env, res *common.Result) *common.Violation {
	rc := rcase{Space: "table", Fn: g.Pkg, Val: g.Key, Args: []string{g.Table}}
	if g.Table == "V" {
		if law, d := cmpValue(g, sv); law != "" {
			return &common.Violation{Class: "table/" + law, Case: g.name(), Detail: d, Replay: rc}
		}
		if mod != nil {
			iv, err := mod.GetValue(g.Key)
			if err != nil {
				return &common.Violation{Class: "import/missing", Case: g.name(), Detail: err.Error(), Replay: rc}
			}
			if law, d := cmpValue(g, iv); law != "" {
				return &common.Violation{Class: "import/" + law, Case: g.name(), Detail: "through import(): " + d, Replay: rc}
			}
		}
		return nil
	}
	law, d, ptr := cmpType(g, st)
	if law != "" {
		return &common.Violation{Class: "table/" + law, Case: g.name(), Detail: d, Replay: rc}
	}
	if ptr && res != nil {
		res.Distinct("table_pointer_forms", g.name()+" is offered as "+st.String())
	}
	if mod != nil {
		it, err := mod.Type(g.Key)
		if err != nil {
			return &common.Violation{Class: "import/missing", Case: g.name(), Detail: err.Error(), Replay: rc}
		}
		if law, d, _ := cmpType(g, it); law != "" {
			return &common.Violation{Class: "import/" + law, Case: g.name(), Detail: "through import(): " + d, Replay: rc}
		}
	}
	return nil
}

// replayTable re-checks one entry (or the symbol sets of one package).
func replayTable(rc rcase) string {
	if rc.Val == "" {
		tmp := common.NewResult()
		checkTables(&common.Ctx{J: 1}, tmp)
		for _, v := range tmp.Violations {
			if v.Case == rc.Fn {
				return v.Class + ": " + v.Detail
			}
		}
		return ""
	}
	for _, g := range genTable {
		if g.Pkg == rc.Fn && g.Key == rc.Val && len(rc.Args) == 1 && g.Table == rc.Args[0] {
			e := env.NewEnv()
			var mod *env.Env
			if _, err := vm.Execute(e, &vm.Options{Debug: false}, fmt.Sprintf("m = import(%q)", g.Pkg)); err == nil {
				m, _ := e.Get("m")
				mod, _ = m.(*env.Env)
			}
			var sv reflect.Value
			var st reflect.Type
			if g.Table == "V" {
				sv = env.Packages[g.Pkg][g.Key]
			} else {
				st = env.PackageTypes[g.Pkg][g.Key]
			}
			if v := checkEntry(g, sv, st, mod, nil); v != nil {
				return v.Class + ": " + v.Detail
			}
			return ""
		}
	}
	return "replay: no such table entry (machinery)"
}

// checkImportAfterWrites: what import() offers is the table's entry also AFTER an
// earlier script wrote through the result of an import expression without binding
// it to a name first (handed to a function, assigned through directly): for every
// package, two members are overwritten that way in one environment, then a fresh
// environment imports the package and must find the table's values.
func checkImportAfterWrites(c *common.Ctx, res *common.Result) {
	var pkgs []string
	for p := range env.Packages {
		pkgs = append(pkgs, p)
	}
	sort.Strings(pkgs)
	for _, p := range pkgs {
		var keys []string
		for k := range env.Packages[p] {
			keys = append(keys, k)
		}
		sort.Strings(keys)
		if len(keys) == 0 {
			continue
		}
		k1, k2 := keys[0], keys[len(keys)-1]
		src := fmt.Sprintf("func patch(m) { m.%s = \"patched\" }\npatch(import(%q))\nimport(%q).%s = \"patched\"", k1, p, p, k2)
		func() {
			defer func() { recover() }()
			vm.Execute(env.NewEnv(), &vm.Options{Debug: false}, src) // whether the writes are allowed is not the point
		}()
		e := env.NewEnv()
		if _, err := vm.Execute(e, &vm.Options{Debug: false}, fmt.Sprintf("m = import(%q)", p)); err != nil {
			continue // reported by checkTables
		}
		m, _ := e.Get("m")
		mod, ok := m.(*env.Env)
		if !ok {
			continue
		}
		res.Add("evaluations", 1)
		res.Add("import_after_write_checks", 1)
		for _, k := range []string{k1, k2} {
			v, err := mod.Get(k)
			if s, isStr := v.(string); err != nil || (isStr && s == "patched") {
				res.Violate(common.Violation{Class: "import/after-write-through-result", Case: p + "." + k,
					Detail: fmt.Sprintf("after another environment ran %q a fresh environment's import(%q).%s is %v (err=%v), not the table's entry", src, p, k, v, err),
					Replay: rcase{Space: "table", Fn: p}})
			}
		}
	}
}
