// Package c12: the environment API behaves as a chain of dictionaries.
// Explicit-state breadth-first search over API histories; every transition is
// executed on the real env package and on a boring reference model in
// lock-step, and the whole observable state is compared after every call.
package c12

import (
	"crypto/sha1"
	"errors"
	"fmt"
	"reflect"
	"sort"
	"strings"
	"sync"

	"github.com/mattn/anko/env"
	"verif/engine/common"
)

// ---------- reference model ----------

type mval struct {
	kind int // 0 int64, 1 module/scope, 2 addressable cell (int64)
	n    int64
	mod  *mscope
}

type mscope struct {
	vals   map[string]mval
	types  map[string]reflect.Type
	parent *mscope
	ext    bool
}

var (
	tInt64   = reflect.TypeOf(int64(0))
	tString  = reflect.TypeOf("")
	tFloat64 = reflect.TypeOf(float64(0))
)

// the external lookup knows value b=9, type b=float64 and type int64=string
const extName = "b"

type extLookup struct{}

func (extLookup) Get(s string) (reflect.Value, error) {
	if s == extName {
		return reflect.ValueOf(int64(9)), nil
	}
	return env.NilValue, errors.New("ext: unknown value")
}

// extTypes: the types the external lookup knows; one of them under the name of
// a built-in type ("built-in type names last" must hold on the root as well)
var extTypes = map[string]reflect.Type{extName: tFloat64, "int64": tString}

func (extLookup) Type(s string) (reflect.Type, error) {
	if t, ok := extTypes[s]; ok {
		return t, nil
	}
	return env.NilType, errors.New("ext: unknown type")
}

var basicNames = map[string]reflect.Type{"int64": tInt64, "string": tString}

func (s *mscope) get(n string) (mval, bool) {
	for e := s; e != nil; e = e.parent {
		if v, ok := e.vals[n]; ok {
			return v, true
		}
		if e.ext && n == extName {
			return mval{kind: 0, n: 9}, true
		}
	}
	return mval{}, false
}

// tableGet is the binding a Set would write: tables only, the external lookup is
// not asked.
func (s *mscope) tableGet(n string) (mval, bool) {
	for e := s; e != nil; e = e.parent {
		if v, ok := e.vals[n]; ok {
			return v, true
		}
	}
	return mval{}, false
}

func (s *mscope) typ(n string) (reflect.Type, bool) {
	for e := s; e != nil; e = e.parent {
		if t, ok := e.types[n]; ok {
			return t, true
		}
		if t, ok := extTypes[n]; ok && e.ext {
			return t, true
		}
		if e.parent == nil {
			if t, ok := basicNames[n]; ok {
				return t, true
			}
		}
	}
	return nil, false
}

func (s *mscope) root() *mscope {
	for s.parent != nil {
		s = s.parent
	}
	return s
}

func (s *mscope) copy1() *mscope {
	c := &mscope{vals: map[string]mval{}, types: map[string]reflect.Type{}, parent: s.parent, ext: s.ext}
	for k, v := range s.vals {
		c.vals[k] = v
	}
	for k, v := range s.types {
		c.types[k] = v
	}
	return c
}

func (s *mscope) deepCopy() *mscope {
	c := s.copy1()
	if c.parent != nil {
		c.parent = c.parent.deepCopy()
	}
	return c
}

func newScope(parent *mscope) *mscope {
	return &mscope{vals: map[string]mval{}, types: map[string]reflect.Type{}, parent: parent}
}

// ---------- operations ----------

type op struct {
	Kind  string   `json:"k"`
	Scope int      `json:"s"`
	Name  string   `json:"n,omitempty"`
	Val   int64    `json:"v,omitempty"`
	Type  string   `json:"t,omitempty"`
	Path  []string `json:"p,omitempty"`
}

func (o op) String() string {
	switch o.Kind {
	case "Define", "Set", "DefineGlobal":
		return fmt.Sprintf("s%d.%s(%q,%d)", o.Scope, o.Kind, o.Name, o.Val)
	case "DefineType", "DefineGlobalType":
		return fmt.Sprintf("s%d.%s(%q,%s)", o.Scope, o.Kind, o.Name, o.Type)
	case "GetEnvFromPath":
		return fmt.Sprintf("s%d.GetEnvFromPath(%q)", o.Scope, o.Path)
	case "NewEnv", "Copy", "DeepCopy", "GetValueSymbols", "GetTypeSymbols", "String":
		return fmt.Sprintf("s%d.%s()", o.Scope, o.Kind)
	}
	return fmt.Sprintf("s%d.%s(%q)", o.Scope, o.Kind, o.Name)
}

var names = []string{"a", "b", "a.b", "m"}

func typeByName(s string) reflect.Type {
	if s == "string" {
		return tString
	}
	return tInt64
}

// alphabet lists the operations applicable on a forest with nlive handles.
func alphabet(nlive, capScopes int) []op {
	var ops []op
	for s := 0; s < nlive; s++ {
		for _, n := range names {
			for _, v := range []int64{1, 2} {
				ops = append(ops, op{Kind: "Define", Scope: s, Name: n, Val: v})
				ops = append(ops, op{Kind: "Set", Scope: s, Name: n, Val: v})
				ops = append(ops, op{Kind: "DefineGlobal", Scope: s, Name: n, Val: v})
			}
			ops = append(ops, op{Kind: "Get", Scope: s, Name: n})
			ops = append(ops, op{Kind: "Delete", Scope: s, Name: n})
			ops = append(ops, op{Kind: "DeleteGlobal", Scope: s, Name: n})
			ops = append(ops, op{Kind: "Addr", Scope: s, Name: n})
			for _, t := range []string{"int64", "string"} {
				ops = append(ops, op{Kind: "DefineType", Scope: s, Name: n, Type: t})
				ops = append(ops, op{Kind: "DefineGlobalType", Scope: s, Name: n, Type: t})
			}
			ops = append(ops, op{Kind: "Type", Scope: s, Name: n})
		}
		ops = append(ops, op{Kind: "DefineCell", Scope: s, Name: "a"})
		ops = append(ops, op{Kind: "Type", Scope: s, Name: "int64"})
		ops = append(ops, op{Kind: "Type", Scope: s, Name: "nosuch"})
		ops = append(ops, op{Kind: "GetEnvFromPath", Scope: s, Path: []string{}})
		for _, a := range names {
			ops = append(ops, op{Kind: "GetEnvFromPath", Scope: s, Path: []string{a}})
			for _, b := range names {
				ops = append(ops, op{Kind: "GetEnvFromPath", Scope: s, Path: []string{a, b}})
			}
		}
		ops = append(ops, op{Kind: "GetValueSymbols", Scope: s}, op{Kind: "GetTypeSymbols", Scope: s}, op{Kind: "String", Scope: s})
		if nlive < capScopes {
			ops = append(ops, op{Kind: "NewEnv", Scope: s}, op{Kind: "Copy", Scope: s}, op{Kind: "DeepCopy", Scope: s})
			for _, n := range names {
				ops = append(ops, op{Kind: "NewModule", Scope: s, Name: n})
			}
		}
	}
	return ops
}

// ---------- a forest: real scopes and model scopes side by side ----------

type forest struct {
	real  []*env.Env
	model []*mscope
	r2m   map[*env.Env]*mscope
	cells map[string]bool
}

// initial configurations: 0 = no external lookup, 1 = on the root, 2 = on a child,
// 3 = no external lookup, but the root's tables exist and are empty (a name was
// defined and deleted again: lazily created maps must behave like absent ones)
func newForest(cfg int) *forest {
	f := &forest{r2m: map[*env.Env]*mscope{}}
	r := env.NewEnv()
	m := newScope(nil)
	f.add(r, m)
	switch cfg {
	case 1:
		r.SetExternalLookup(extLookup{})
		m.ext = true
	case 3:
		r.Define("a", int64(1))
		r.Delete("a")
		r.DefineType("a", int64(0))
		// there is no API to delete a type: only the value table is emptied
		m.types["a"] = tInt64
	case 2:
		c := r.NewEnv()
		c.SetExternalLookup(extLookup{})
		mc := newScope(m)
		mc.ext = true
		f.add(c, mc)
	case 4:
		// a chain three scopes deep with a value and a type bound at its outer end
		// (searches start from non-initial states too: a look-up from s2 that is
		// answered two levels up is one step away instead of four)
		r.Define("a", int64(1))
		r.DefineType("a", int64(0))
		m.vals["a"] = mval{n: 1}
		m.types["a"] = tInt64
		c1 := r.NewEnv()
		m1 := newScope(m)
		f.add(c1, m1)
		c2 := c1.NewEnv()
		m2 := newScope(m1)
		f.add(c2, m2)
	case 5:
		// root > module m > a scope inside the module, a bound in the root
		r.Define("a", int64(1))
		m.vals["a"] = mval{n: 1}
		mod, _ := r.NewModule("m")
		mm := newScope(m)
		m.vals["m"] = mval{kind: 1, mod: mm}
		f.add(mod, mm)
		c2 := mod.NewEnv()
		m2 := newScope(mm)
		f.add(c2, m2)
	}
	return f
}

func (f *forest) add(r *env.Env, m *mscope) {
	f.real = append(f.real, r)
	f.model = append(f.model, m)
	f.r2m[r] = m
}

func strContainsDot(s string) bool { return strings.Contains(s, ".") }

// outcome of one call, comparable between model and implementation
type outcome struct {
	err   string // "" ok, "dot" ErrSymbolContainsDot, "err" other error, "panic:..." panic
	val   string
	newSc bool
}

func (f *forest) mvalString(v mval) string {
	switch v.kind {
	case 1:
		for i, m := range f.model {
			if m == v.mod {
				return fmt.Sprintf("scope#%d", i)
			}
		}
		return "scope#?"
	case 2:
		return fmt.Sprintf("int64:%d", v.n)
	}
	return fmt.Sprintf("int64:%d", v.n)
}

func (f *forest) realValString(x interface{}) string {
	switch t := x.(type) {
	case nil:
		return "nil"
	case int64:
		return fmt.Sprintf("int64:%d", t)
	case *env.Env:
		m, ok := f.r2m[t]
		if !ok {
			return "scope#unknown"
		}
		for i, mm := range f.model {
			if mm == m {
				return fmt.Sprintf("scope#%d", i)
			}
		}
		return "scope#?"
	}
	return fmt.Sprintf("%T:%v", x, x)
}

func errClass(err error) string {
	if err == nil {
		return ""
	}
	if err == env.ErrSymbolContainsDot {
		return "dot"
	}
	return "err"
}

// applyModel executes o on the model; returns the outcome and (for scope
// creating calls) the new model scope.
func (f *forest) applyModel(o op) (outcome, *mscope) {
	s := f.model[o.Scope]
	switch o.Kind {
	case "Define", "DefineGlobal", "DefineCell":
		if strContainsDot(o.Name) {
			return outcome{err: "dot"}, nil
		}
		t := s
		if o.Kind == "DefineGlobal" {
			t = s.root()
		}
		if o.Kind == "DefineCell" {
			t.vals[o.Name] = mval{kind: 2, n: 5}
		} else {
			t.vals[o.Name] = mval{n: o.Val}
		}
		return outcome{}, nil
	case "Set":
		for e := s; e != nil; e = e.parent {
			if _, ok := e.vals[o.Name]; ok {
				e.vals[o.Name] = mval{n: o.Val}
				return outcome{}, nil
			}
		}
		return outcome{err: "err"}, nil
	case "Get":
		v, ok := s.get(o.Name)
		if !ok {
			return outcome{err: "err", val: "nil"}, nil
		}
		return outcome{val: f.mvalString(v)}, nil
	case "Delete":
		delete(s.vals, o.Name)
		return outcome{}, nil
	case "DeleteGlobal":
		for e := s; e != nil; e = e.parent {
			if _, ok := e.vals[o.Name]; ok || e.parent == nil {
				delete(e.vals, o.Name)
				break
			}
		}
		return outcome{}, nil
	case "Addr":
		for e := s; e != nil; e = e.parent {
			if v, ok := e.vals[o.Name]; ok {
				if v.kind == 2 {
					return outcome{val: fmt.Sprintf("ptr->int64:%d", v.n)}, nil
				}
				return outcome{err: "err"}, nil
			}
			if e.ext && o.Name == extName {
				return outcome{err: "err"}, nil // the lookup's value is not addressable
			}
		}
		return outcome{err: "err"}, nil
	case "DefineType", "DefineGlobalType":
		if strContainsDot(o.Name) {
			return outcome{err: "dot"}, nil
		}
		t := s
		if o.Kind == "DefineGlobalType" {
			t = s.root()
		}
		t.types[o.Name] = typeByName(o.Type)
		return outcome{}, nil
	case "Type":
		t, ok := s.typ(o.Name)
		if !ok {
			return outcome{err: "err", val: "niltype"}, nil
		}
		return outcome{val: t.String()}, nil
	case "NewEnv":
		return outcome{newSc: true}, newScope(s)
	case "NewModule":
		m := newScope(s)
		if strContainsDot(o.Name) {
			return outcome{err: "dot", newSc: true}, m
		}
		s.vals[o.Name] = mval{kind: 1, mod: m}
		return outcome{newSc: true}, m
	case "GetEnvFromPath":
		if len(o.Path) == 0 {
			return outcome{val: f.mvalString(mval{kind: 1, mod: s})}, nil
		}
		var cur *mscope
		for e := s; e != nil; e = e.parent {
			if v, ok := e.vals[o.Path[0]]; ok && v.kind == 1 {
				cur = v.mod
				break
			}
		}
		if cur == nil {
			return outcome{err: "err", val: "nil"}, nil
		}
		for _, p := range o.Path[1:] {
			v, ok := cur.vals[p]
			if !ok || v.kind != 1 {
				return outcome{err: "err", val: "nil"}, nil
			}
			cur = v.mod
		}
		return outcome{val: f.mvalString(mval{kind: 1, mod: cur})}, nil
	case "Copy":
		return outcome{newSc: true}, s.copy1()
	case "DeepCopy":
		return outcome{newSc: true}, s.deepCopy()
	case "GetValueSymbols":
		return outcome{val: strings.Join(sortedKeysV(s.vals), ",")}, nil
	case "GetTypeSymbols":
		return outcome{val: strings.Join(sortedKeysT(s.types), ",")}, nil
	case "String":
		hdr := "Has parent"
		if s.parent == nil {
			hdr = "No parent"
		}
		syms := append(sortedKeysV(s.vals), sortedKeysT(s.types)...)
		sort.Strings(syms)
		return outcome{val: hdr + "|" + strings.Join(syms, ",")}, nil
	}
	panic("unknown op " + o.Kind)
}

func sortedKeysV(m map[string]mval) []string {
	var k []string
	for n := range m {
		k = append(k, n)
	}
	sort.Strings(k)
	return k
}
func sortedKeysT(m map[string]reflect.Type) []string {
	var k []string
	for n := range m {
		k = append(k, n)
	}
	sort.Strings(k)
	return k
}

// applyReal executes o on the implementation.
func (f *forest) applyReal(o op) (out outcome, created *env.Env) {
	defer func() {
		if r := recover(); r != nil {
			out = outcome{err: fmt.Sprintf("panic:%v", r)}
			created = nil
		}
	}()
	e := f.real[o.Scope]
	switch o.Kind {
	case "Define":
		return outcome{err: errClass(e.Define(o.Name, o.Val))}, nil
	case "DefineCell":
		x := int64(5)
		return outcome{err: errClass(e.DefineValue(o.Name, reflect.ValueOf(&x).Elem()))}, nil
	case "DefineGlobal":
		return outcome{err: errClass(e.DefineGlobal(o.Name, o.Val))}, nil
	case "Set":
		return outcome{err: errClass(e.Set(o.Name, o.Val))}, nil
	case "Get":
		v, err := e.Get(o.Name)
		return outcome{err: errClass(err), val: f.realValString(v)}, nil
	case "Delete":
		e.Delete(o.Name)
		return outcome{}, nil
	case "DeleteGlobal":
		e.DeleteGlobal(o.Name)
		return outcome{}, nil
	case "Addr":
		v, err := e.Addr(o.Name)
		if err != nil {
			return outcome{err: errClass(err)}, nil
		}
		if v.Kind() != reflect.Ptr {
			return outcome{val: "not-a-pointer:" + v.Kind().String()}, nil
		}
		return outcome{val: "ptr->" + f.realValString(v.Elem().Interface())}, nil
	case "DefineType":
		return outcome{err: errClass(e.DefineType(o.Name, typeByName(o.Type)))}, nil
	case "DefineGlobalType":
		return outcome{err: errClass(e.DefineGlobalType(o.Name, typeByName(o.Type)))}, nil
	case "Type":
		t, err := e.Type(o.Name)
		if err != nil {
			if t != env.NilType {
				return outcome{err: "err", val: "non-nil type with error"}, nil
			}
			return outcome{err: "err", val: "niltype"}, nil
		}
		return outcome{val: t.String()}, nil
	case "NewEnv":
		return outcome{newSc: true}, e.NewEnv()
	case "NewModule":
		m, err := e.NewModule(o.Name)
		if err == nil && m != nil && o.Name == "m" {
			// the module named m is then held the way a script can leave it: in a
			// value of kind Interface (read from a list element, received from a
			// chan interface); it is the same module under the same name
			if derr := e.DefineValue(o.Name, reflect.ValueOf(struct{ V interface{} }{m}).Field(0)); derr != nil {
				return outcome{err: "rebind:" + derr.Error(), newSc: true}, m
			}
		}
		return outcome{err: errClass(err), newSc: m != nil}, m
	case "GetEnvFromPath":
		r, err := e.GetEnvFromPath(o.Path)
		if err != nil {
			if r != nil {
				return outcome{err: "err", val: "non-nil env with error"}, nil
			}
			return outcome{err: "err", val: "nil"}, nil
		}
		return outcome{val: f.realValString(r)}, nil
	case "Copy":
		return outcome{newSc: true}, e.Copy()
	case "DeepCopy":
		return outcome{newSc: true}, e.DeepCopy()
	case "GetValueSymbols":
		s := e.GetValueSymbols()
		sort.Strings(s)
		return outcome{val: strings.Join(s, ",")}, nil
	case "GetTypeSymbols":
		s := e.GetTypeSymbols()
		sort.Strings(s)
		return outcome{val: strings.Join(s, ",")}, nil
	case "String":
		str := e.String()
		lines := strings.Split(strings.TrimSuffix(str, "\n"), "\n")
		var syms []string
		for _, l := range lines[1:] {
			if i := strings.Index(l, " = "); i >= 0 {
				syms = append(syms, l[:i])
			} else {
				syms = append(syms, "?"+l)
			}
		}
		sort.Strings(syms)
		return outcome{val: lines[0] + "|" + strings.Join(syms, ",")}, nil
	}
	panic("unknown op " + o.Kind)
}

// step applies o to both sides and compares the outcome.
func (f *forest) step(o op) (diff string) {
	mo, ms := f.applyModel(o)
	ro, rs := f.applyReal(o)
	if ms != nil || rs != nil {
		if ms != nil && rs != nil {
			f.add(rs, ms)
		} else if strings.HasPrefix(ro.err, "panic:") {
			return "panic in " + o.String() + ": " + ro.err
		} else {
			return fmt.Sprintf("%s: scope creation differs (model %v, impl %v)", o, ms != nil, rs != nil)
		}
	}
	if mo != ro {
		return fmt.Sprintf("%s: model{err=%q val=%q} impl{err=%q val=%q}", o, mo.err, mo.val, ro.err, ro.val)
	}
	return ""
}

var obsTypeNames = []string{"a", "b", "a.b", "m", "int64"}

// observe compares the entire observable state of every live scope.
func (f *forest) observe() (diff string) {
	defer func() {
		if r := recover(); r != nil {
			diff = fmt.Sprintf("panic while observing: %v", r)
		}
	}()
	for i, e := range f.real {
		m := f.model[i]
		vs := e.GetValueSymbols()
		sort.Strings(vs)
		if a, b := strings.Join(vs, ","), strings.Join(sortedKeysV(m.vals), ","); a != b {
			return fmt.Sprintf("scope %d value symbols: model [%s] impl [%s]", i, b, a)
		}
		ts := e.GetTypeSymbols()
		sort.Strings(ts)
		if a, b := strings.Join(ts, ","), strings.Join(sortedKeysT(m.types), ","); a != b {
			return fmt.Sprintf("scope %d type symbols: model [%s] impl [%s]", i, b, a)
		}
		for _, n := range names {
			rv, rerr := e.Get(n)
			mv, ok := m.get(n)
			if ok != (rerr == nil) {
				return fmt.Sprintf("scope %d Get(%q): model bound=%v impl err=%v", i, n, ok, rerr)
			}
			if ok {
				if a, b := f.realValString(rv), f.mvalString(mv); a != b {
					return fmt.Sprintf("scope %d Get(%q): model %s impl %s", i, n, b, a)
				}
			}
		}
		// Set of a name to the value it already has changes nothing observable; it is
		// issued at every state so that whatever a Set leaves behind in the
		// implementation (a remembered owner scope, say) exists before the next step
		for _, n := range names {
			if mv, ok := m.tableGet(n); ok && mv.kind == 0 {
				if err := e.Set(n, mv.n); err != nil {
					return fmt.Sprintf("scope %d Set(%q) to its current value %d: impl err=%v", i, n, mv.n, err)
				}
			}
		}
		for _, n := range obsTypeNames {
			rt, rerr := e.Type(n)
			mt, ok := m.typ(n)
			if ok != (rerr == nil) {
				return fmt.Sprintf("scope %d Type(%q): model bound=%v impl err=%v", i, n, ok, rerr)
			}
			if ok && rt != mt {
				return fmt.Sprintf("scope %d Type(%q): model %v impl %v", i, n, mt, rt)
			}
		}
	}
	return ""
}

// key is the canonical form of the model forest.
func (f *forest) key() [20]byte {
	ord := map[*mscope]int{}
	var order []*mscope
	var visit func(s *mscope)
	visit = func(s *mscope) {
		if s == nil {
			return
		}
		if _, ok := ord[s]; ok {
			return
		}
		ord[s] = len(order)
		order = append(order, s)
	}
	for _, s := range f.model {
		visit(s)
	}
	for i := 0; i < len(order); i++ {
		s := order[i]
		visit(s.parent)
		for _, n := range sortedKeysV(s.vals) {
			if v := s.vals[n]; v.kind == 1 {
				visit(v.mod)
			}
		}
	}
	var b strings.Builder
	fmt.Fprintf(&b, "live=%d;", len(f.model))
	for i, s := range order {
		p := -1
		if s.parent != nil {
			p = ord[s.parent]
		}
		fmt.Fprintf(&b, "#%d p=%d x=%v{", i, p, s.ext)
		for _, n := range sortedKeysV(s.vals) {
			v := s.vals[n]
			switch v.kind {
			case 1:
				fmt.Fprintf(&b, "%s=S%d,", n, ord[v.mod])
			case 2:
				fmt.Fprintf(&b, "%s=C%d,", n, v.n)
			default:
				fmt.Fprintf(&b, "%s=%d,", n, v.n)
			}
		}
		b.WriteString("}{")
		for _, n := range sortedKeysT(s.types) {
			fmt.Fprintf(&b, "%s=%s,", n, s.types[n])
		}
		b.WriteString("}")
	}
	return sha1.Sum([]byte(b.String()))
}

// keyOf: the canonical model state, kept apart for configuration 3 (the model
// cannot tell an empty table from an absent one; the implementation might)
func keyOf(f *forest, cfg int) [20]byte {
	k := f.key()
	if cfg == 3 {
		k[0] ^= 0xA5
		k[19] ^= 0x5A
	}
	return k
}

const nCfg = 6

// ---------- the search ----------

type history struct {
	Cfg int  `json:"cfg"`
	Ops []op `json:"ops"`
}

func (h history) String() string {
	cfg := []string{"ext=none", "ext=root", "ext=child(s1)", "ext=none,root-table-emptied", "chain s0{a=1,type a}>s1>s2", "chain s0{a=1}>module m(s1)>s2"}[h.Cfg]
	parts := []string{cfg}
	for _, o := range h.Ops {
		parts = append(parts, o.String())
	}
	return strings.Join(parts, "; ")
}

// build replays h on a fresh forest; returns the first divergence (if any).
func build(h history) (*forest, string) {
	f := newForest(h.Cfg)
	for _, o := range h.Ops {
		if o.Scope >= len(f.real) {
			return f, "replay: scope index out of range (machinery)"
		}
		if d := f.step(o); d != "" {
			return f, d
		}
		// the observation queries are part of the history: every state was fully
		// observed when it was first reached, so the replay observes it too (a
		// lookup may leave traces in the implementation, e.g. a cache)
		if d := f.observe(); d != "" {
			return f, d
		}
	}
	return f, ""
}

func less(a, b []int) bool {
	for i := range a {
		if i >= len(b) {
			return false
		}
		if a[i] != b[i] {
			return a[i] < b[i]
		}
	}
	return len(a) < len(b)
}

type node struct {
	h   history
	idx []int // op indices, for deterministic tie-breaking
}

func classOf(o op, d string) string {
	kind := "result"
	switch {
	case strings.HasPrefix(d, "panic") || strings.Contains(d, "panic:"):
		kind = "panic"
	case strings.HasPrefix(d, "scope "):
		kind = "state"
	}
	return o.Kind + "/" + kind
}

// mutatingAlphabet: the state-changing calls only, on names a and m (the full
// observation after every call still sees everything); used to go one level deeper
func mutatingAlphabet(nlive, capScopes int) []op {
	var ops []op
	for _, o := range alphabet(nlive, capScopes) {
		switch o.Kind {
		case "Define":
			// both values: a binding that appears in an intermediate scope must be
			// told apart from the one further out
			if o.Name == "a" || (o.Name == "m" && o.Val == 1) {
				ops = append(ops, o)
			}
		case "Set", "DefineGlobal":
			if (o.Name == "a" || o.Name == "m") && o.Val == 1 {
				ops = append(ops, o)
			}
		case "Delete", "DeleteGlobal":
			if o.Name == "a" || o.Name == "m" {
				ops = append(ops, o)
			}
		case "DefineType", "DefineGlobalType":
			if o.Name == "a" && o.Type == "string" {
				ops = append(ops, o)
			}
		case "NewEnv", "Copy", "DeepCopy":
			ops = append(ops, o)
		case "NewModule":
			if o.Name == "m" {
				ops = append(ops, o)
			}
		}
	}
	return ops
}

func run(c *common.Ctx) *common.Result {
	res := common.NewResult()
	depth, capScopes := 3, 4
	if c.Thorough() {
		depth, capScopes = 4, 5
	}
	search(c, res, depth, capScopes, alphabet, "")
	// one level deeper over the mutating sub-alphabet
	search(c, res, 5, capScopes, mutatingAlphabet, "deep:")
	return res
}

func search(c *common.Ctx, res *common.Result, depth, capScopes int, alpha func(int, int) []op, tag string) {
	seen := map[[20]byte]bool{}
	var frontier []node
	for cfg := 0; cfg < nCfg; cfg++ {
		f := newForest(cfg)
		if d := f.observe(); d != "" {
			res.Violate(common.Violation{Class: "initial/state", Case: history{Cfg: cfg}.String(), Detail: d, Replay: history{Cfg: cfg}})
		}
		seen[keyOf(f, cfg)] = true
		frontier = append(frontier, node{h: history{Cfg: cfg}})
	}
	res.Add("states", int64(len(frontier)))
	violCases := map[string]bool{}
	var vmu sync.Mutex
	for d := 1; d <= depth && len(frontier) > 0; d++ {
		type cand struct {
			n node
		}
		var mu sync.Mutex
		next := map[[20]byte]node{}
		var capped bool
		common.ParallelFor(c, len(frontier), func(i int) {
			if c.Expired() {
				capped = true
				return
			}
			nd := frontier[i]
			if nd.h.Cfg >= 4 && d > depth-1 {
				// the two chain start states are already two to three calls deep:
				// they are explored one level less than the initial states
				return
			}
			base, bd := build(nd.h)
			if bd != "" {
				return // already reported when first reached
			}
			ops := alpha(len(base.real), capScopes)
			local := map[[20]byte]node{}
			for oi, o := range ops {
				h := history{Cfg: nd.h.Cfg, Ops: append(append([]op{}, nd.h.Ops...), o)}
				f, _ := build(nd.h)
				res.Add("transitions", 1)
				diff := f.step(o)
				if diff == "" {
					diff = f.observe()
				}
				if diff != "" {
					cs := h.String()
					vmu.Lock()
					dup := violCases[cs]
					violCases[cs] = true
					vmu.Unlock()
					if !dup {
						res.Violate(common.Violation{Class: classOf(o, diff), Case: cs, Detail: diff, Replay: h})
					}
					continue // do not extend a history past a divergence
				}
				k := keyOf(f, nd.h.Cfg)
				idx := append(append([]int{}, nd.idx...), oi)
				if old, ok := local[k]; !ok || less(idx, old.idx) {
					local[k] = node{h: h, idx: idx}
				}
			}
			mu.Lock()
			for k, n := range local {
				if seen[k] {
					continue
				}
				if old, ok := next[k]; !ok || less(n.idx, old.idx) {
					next[k] = n
				}
			}
			mu.Unlock()
		})
		if capped {
			res.Cap(fmt.Sprintf("soft deadline reached at depth %d", d))
			break
		}
		frontier = frontier[:0]
		for k, n := range next {
			seen[k] = true
			frontier = append(frontier, n)
		}
		sort.Slice(frontier, func(i, j int) bool {
			if frontier[i].h.Cfg != frontier[j].h.Cfg {
				return frontier[i].h.Cfg < frontier[j].h.Cfg
			}
			return less(frontier[i].idx, frontier[j].idx)
		})
		res.Add("states", int64(len(frontier)))
		res.Max("depth", int64(d))
		res.Max(tag+"depth", int64(d))
		res.Add(fmt.Sprintf("%snew_states_depth_%d", tag, d), int64(len(frontier)))
		if len(frontier) > 0 {
			res.Sample(map[string]interface{}{"depth": d, "history": frontier[len(frontier)/2].h.String()})
			res.Sample(map[string]interface{}{"depth": d, "history": frontier[len(frontier)-1].h.String()})
		}
	}
}

func coverage(c *common.Ctx, r *common.Result) map[string]interface{} {
	return map[string]interface{}{
		"states":                         r.Counts["states"],
		"transitions":                    r.Counts["transitions"],
		"traces_validated_against_impl":  r.Counts["transitions"],
		"max_depth":                      r.GetMax("depth"),
		"max_depth_state_changing_calls": r.GetMax("deep:depth"),
		"rule": "breadth-first search over histories of env API calls (≈92 calls per live scope: Define/Set/Get/Delete/DeleteGlobal/DefineGlobal/Addr/DefineType/DefineGlobalType/Type/NewEnv/NewModule/GetEnvFromPath(len≤2)/Copy/DeepCopy/symbol listings/String over names a,b,a.b,m) from four initial configurations (no external lookup, lookup on the root, lookup on a child, root whose value table was created and emptied again); " +
			"then one level deeper over the state-changing calls only (Define/Set/DefineGlobal/Delete/DeleteGlobal on a and m, DefineType, NewEnv, NewModule, Copy, DeepCopy); states de-duplicated on the canonical form of the reference model's forest; every transition replays the history on fresh real scopes, executes the call on implementation and model, compares return value / error class and then the whole observable state (symbols, Get and Type of every pool name, on every live scope)",
		"explanation": "a state is the model forest; a transition is one API call executed on the real env package and on the model in lock-step, so every transition is also a model trace step validated against the implementation",
	}
}

func replay(c *common.Ctx, path string) int {
	var h history
	if _, _, err := common.ReadReplay(path, &h); err != nil {
		fmt.Println("cannot read replay:", err)
		return 2
	}
	var first string
	for round := 0; round < 2; round++ {
		_, d := build(h)
		if d == "" {
			f, _ := build(h)
			d = f.observe()
		}
		if round == 0 {
			first = d
		} else if d != first {
			fmt.Printf("NONDETERMINISTIC replay: %q vs %q\n", first, d)
			return 2
		}
	}
	fmt.Println("history:", h.String())
	if first == "" {
		fmt.Println("replay: model and implementation agree")
		return 0
	}
	fmt.Println("divergence:", first)
	return 1
}

func init() {
	common.Register(&common.Prop{
		ID: "C12", Level: "model_checking", Run: run, Coverage: coverage, Replay: replay,
		Assumptions: []string{
			"values are int64 1/2, one addressable cell and module scopes; types int64/string; names a, b, a.b, m",
			"at most 4 (quick) / 5 (thorough) live scope handles; histories up to depth 3 / 4 over the full alphabet and depth 5 over the state-changing calls from the four initial configurations, one level less from the two chain start states (a three-scope chain; root > module > inner scope)",
			"error messages are not compared, only error-vs-success and the identity of ErrSymbolContainsDot",
			"GetEnvFromPath resolves its first element to the nearest enclosing binding that is a module (the walk the code spells out)",
		},
	})
}
