package c20

import "strings"

// A template is one operation with the operand hole(s) written '@'.  Pre holds
// set-up lines (same text for baseline and variant), Body the operation; the
// value of the last statement is what vm.Execute returns and what is compared.
type template struct {
	ID   string
	Pre  string
	Body string
	// Lvalue: the hole is an assignment target itself (H++, H += 1): only
	// chains whose expression is a location are instantiated.
	Lvalue bool
	// Skip excludes operand values for which the template is not comparable
	// (would block, or prints an address); see the notes.
	Skip func(v *valueSpec) bool
}

func skipAddr(v *valueSpec) bool     { return v.addr }
func skipOpenChan(v *valueSpec) bool { return v.openChan }
func onlyRef(v *valueSpec) bool      { return !v.ref }
func isString(v *valueSpec) bool     { return v.ID == "string" || v.ID == "nstring" }
func isHuge(v *valueSpec) bool       { return v.huge }

// source renders the program: the chain's prologue, the template's set-up and
// the operation with the hole filled by the chain's expression.
func (t *template) source(val *valueSpec, c chain) string { return t.render(val, c, false) }

// baseline renders the same program (same prologue, same set-up) with the
// hole filled by the plain variable v.
func (t *template) baseline(val *valueSpec, c chain) string { return t.render(val, c, true) }

func (t *template) render(val *valueSpec, c chain, plain bool) string {
	pro, expr := c.build()
	if plain {
		expr = "v"
	}
	var b strings.Builder
	if val.init != "" {
		// script-built values: cnt first because the function body names it
		b.WriteString("cnt = 0\n")
		b.WriteString(val.init)
		b.WriteString("\n")
	} else {
		b.WriteString("cnt = 0\n")
	}
	b.WriteString("func id(x) { return x }\n")
	b.WriteString(pro)
	if t.Pre != "" {
		b.WriteString(strings.ReplaceAll(t.Pre, "@", expr))
		b.WriteString("\n")
	}
	b.WriteString(strings.ReplaceAll(t.Body, "@", expr))
	return b.String()
}

var templates = buildTemplates()

func templateByID(id string) *template {
	for _, t := range templates {
		if t.ID == id {
			return t
		}
	}
	return nil
}

func buildTemplates() []*template {
	var ts []*template
	add := func(id, pre, body string) *template {
		t := &template{ID: id, Pre: pre, Body: body}
		ts = append(ts, t)
		return t
	}

	// the chain by itself: "a value keeps its dynamic type through any number of hops"
	add("ident", "", "@")

	// unary operators
	add("neg", "", "-@")
	add("not", "", "!@")
	add("bnot", "", "^@")

	// binary operators: hole left, hole right, both
	for _, o := range []struct{ id, op, other string }{
		{"add", "+", "2"}, {"sub", "-", "2"}, {"mul", "*", "2"}, {"div", "/", "2"}, {"mod", "%", "2"},
		{"band", "&", "2"}, {"bor", "|", "2"}, {"shl", "<<", "2"}, {"shr", ">>", "2"},
		{"eq", "==", "3"}, {"ne", "!=", "3"}, {"lt", "<", "4"}, {"le", "<=", "3"}, {"gt", ">", "2"}, {"ge", ">=", "3"},
		{"land", "&&", "true"}, {"lor", "||", "false"},
	} {
		add(o.id+".l", "", "@ "+o.op+" "+o.other)
		add(o.id+".r", "", o.other+" "+o.op+" @")
		add(o.id+".both", "", "@ "+o.op+" @")
	}
	// + and * with string / slice partners; == with nil and string
	add("add.l.str", "", `@ + "z"`).Skip = skipAddr
	add("add.r.str", "", `"z" + @`).Skip = skipAddr
	add("add.l.list", "", `@ + [9]`)
	add("add.r.list", "", `[9] + @`)
	add("add.r.tslice", "", `[]int64{9} + @`)
	add("mul.r.str", "", `"ab" * @`).Skip = isHuge
	// comparisons next to 2^53: integers must be compared as integers
	add("le.l.2p53", "", `@ <= 9007199254740992`)
	add("gt.l.2p53", "", `@ > 9007199254740992`)
	add("ge.r.2p53", "", `9007199254740992 >= @`)
	add("lt.r.2p53", "", `9007199254740992 < @`)
	add("eq.l.nil", "", `@ == nil`)
	add("eq.r.nil", "", `nil == @`)
	add("eq.l.str", "", `@ == "ab"`)
	add("eq.r.seven", "", `7 == @`)

	// index, both roles
	add("index.base", "", `@[0]`)
	add("index.base.key", "", `@["k"]`)
	add("index.key.list", "c = [10, 20, 30, 40]", `c[@]`)
	add("index.key.map", `c = {"ab": 7, 3: 8, "k": 9, true: 10, 2.5: 11}`, `c[@]`)
	add("index.key.str", `c = "hello"`, `c[@]`)
	// slices
	add("slice.base.from", "", `@[1:]`)
	add("slice.base.to", "", `@[:1]`)
	add("slice.base.both", "", `@[0:1]`)
	add("slice.base.cap", "", `@[0:1:2]`)
	add("slice.begin", "c = [10, 20, 30, 40]", `c[@:]`)
	add("slice.end", "c = [10, 20, 30, 40]", `c[:@]`)
	add("slice.cap", "c = [10, 20, 30, 40]", `c[0:1:@]`)
	// len
	add("len", "", `len(@)`)
	// in, both roles
	add("in.item", "", `@ in [3, 5000, 2.5, "ab", true, nil]`)
	add("in.item7", "", `@ in [7]`)
	add("in.item.float", "", `@ in [3.0]`)
	add("in.item.numstr", "", `@ in ["3", "2.5"]`)
	add("in.list", "", `3 in @`)
	add("in.list.miss", "", `"zz" in @`)
	add("in.self", "", `@ in [@]`)

	// call target
	add("call.0", "", `@()`)
	add("call.1", "", `@(1)`)
	add("call.2", "", `@(1, 2)`)
	add("call.spread", "", `@([1]...)`)
	// call argument, script callee
	add("sarg.1", "func f(x) { return x }", `f(@)`)
	add("sarg.2", "func f(a, b) { return [a, b] }", `f(1, @)`)
	add("sarg.var", "func f(a...) { return a }", `f(@)`)
	add("sarg.var2", "func f(a...) { return a }", `f(1, @)`)
	add("sarg.use", "func f(x) { return x == 3 }", `f(@)`)
	add("sarg.5", "func f(a, b, c, d, e) { return e }", `f(1, 2, 3, 4, @)`)
	// call argument, Go callee
	add("garg.any", "", `gany(@)`)
	add("garg.int", "", `gint(@)`)
	add("garg.f64", "", `gf64(@)`)
	add("garg.str", "", `gstr(@)`).Skip = skipAddr
	add("garg.bool", "", `gbool(@)`)
	add("garg.tslice", "", `gsl(@)`)
	add("garg.islice", "", `gisl(@)`)
	add("garg.map", "", `gmap(@)`)
	add("garg.func", "", `gfn(@)`)
	add("garg.ptr", "", `gptr(@)`)
	// a pointer stays THE pointer: what the Go callee writes through its argument is
	// seen through the variable the operand came from (not a pointer to a copy)
	add("garg.ptr.write", "", "gptrset(@)\n*v")
	add("garg.var", "", `gvar(@)`)
	add("garg.var2", "", `gvar(1, @)`)
	add("garg.2", "", `g2(1, @)`)
	// spread argument: fixed and variadic callee, script and Go
	add("spread.sfix2", "func f(a, b) { return [a, b] }", `f(@...)`)
	add("spread.sfix2.tail", "func f(a, b) { return [a, b] }", `f(1, @...)`)
	add("spread.sfix1", "func f(a) { return a }", `f(@...)`)
	add("spread.svar", "func f(a...) { return a }", `f(@...)`)
	add("spread.svar.tail", "func f(x, a...) { return [x, a] }", `f(1, @...)`)
	add("spread.gfix1", "", `gany(@...)`)
	add("spread.gfix2", "", `g2(@...)`)
	add("spread.gfix2.tail", "", `g2(1, @...)`)
	add("spread.gvar", "", `gvar(@...)`)
	add("spread.gvar.tail", "", `g1var(1, @...)`)
	add("spread.gvar.int", "", `gvari(@...)`)

	// member base
	add("member.k", "", `@.k`)
	add("member.X", "", `@.X`)
	add("member.F", "", `@.F`)
	add("member.method", "", `@.Sum()`)
	add("member.pmethod", "", `@.Inc()`)
	// method call and method value, with and without arguments (struct, pointer and
	// named non-struct receivers)
	add("method.call0", "", `@.Total()`)
	add("method.call1", "", `@.Plus(2)`)
	add("method.value0", "", "f = @.Total\nf()")
	add("method.value1", "", "f = @.Plus\nf(2)")
	add("method.ptr.call", "", `@.Bump(1)`)
	add("method.ptr.value", "", "f = @.Bump\nf(1)")
	add("method.ptr.seen", "", "@.Bump(1)\nv").Skip = onlyRef
	add("method.missing", "", `@.Nope()`)
	add("method.arg.spread", "", `@.Plus([2]...)`)
	// dereference, address-of
	add("deref", "", `*@`)
	add("addr", "", `&@`)
	add("addr.deref", "", `*&@`)

	// for-in subject (single-entry maps; open channels would block)
	add("forin", "r = []", "for x in @ {\n r = r + [x]\n}\nr").Skip = skipOpenChan
	add("forin.kv", "r = []", "for k, x in @ {\n r = r + [k, x]\n}\nr").Skip = skipOpenChan
	add("forin.break", "r = 0", "for x in @ {\n r = 1\n break\n}\nr")
	// switch subject and case
	add("switch.subject", `r = "none"`, "switch @ {\ncase 3:\n r = \"int\"\ncase 5000:\n r = \"bigint\"\ncase 2.5:\n r = \"float\"\ncase \"ab\":\n r = \"string\"\ncase 7:\n r = \"seven\"\ncase true:\n r = \"bool\"\ncase nil:\n r = \"nil\"\ndefault:\n r = \"default\"\n}\nr")
	add("switch.case3", `r = "none"`, "switch 3 {\ncase @:\n r = \"hit\"\ndefault:\n r = \"miss\"\n}\nr")
	add("switch.case3f", `r = "none"`, "switch 3.0 {\ncase @:\n r = \"hit\"\ndefault:\n r = \"miss\"\n}\nr")
	add("switch.subject.num", `r = "none"`, "switch @ {\ncase 3.0:\n r = \"float\"\ncase \"5000\":\n r = \"numstr\"\ncase 1:\n r = \"one\"\ndefault:\n r = \"default\"\n}\nr")
	add("switch.case7", `r = "none"`, "switch 7 {\ncase @:\n r = \"hit\"\ndefault:\n r = \"miss\"\n}\nr")
	add("switch.caseab", `r = "none"`, "switch \"ab\" {\ncase 1, @:\n r = \"hit\"\ndefault:\n r = \"miss\"\n}\nr")
	add("switch.casenil", `r = "none"`, "switch nil {\ncase @:\n r = \"hit\"\ndefault:\n r = \"miss\"\n}\nr")
	// conditions
	add("if", "r = 0", "if @ {\n r = 1\n} else {\n r = 2\n}\nr")
	add("elseif", "r = 0", "if false {\n r = 1\n} else if @ {\n r = 2\n} else {\n r = 3\n}\nr")
	add("loop.cond", "r = 0", "for @ {\n r = 1\n break\n}\nr")
	add("cfor.cond", "r = 0", "for i = 0; @; i++ {\n r = 1\n break\n}\nr")
	add("ternary.cond", "", `@ ? 1 : 2`)
	add("ternary.then", "", `true ? @ : 2`)
	add("ternary.else", "", `false ? 2 : @`)
	add("coalesce.l", "", `@ ?? 1`)
	add("coalesce.r", "", `nil ?? @`)

	// make sizes
	add("make.slice.len", "", `make([]int64, @)`).Skip = isHuge
	add("make.slice.cap", "", `make([]int64, 4, @)`).Skip = isHuge
	add("make.chan.size", "", `make(chan int64, @)`).Skip = isHuge
	// channels
	add("chan.send.value", "k = make(chan interface, 1)", "k <- @\n<-k")
	add("chan.send.value.typed", "k = make(chan int64, 1)", "k <- @\n<-k")
	add("chan.send.target", "", "@ <- 1\nlen(@)")
	add("chan.recv", "", `<-@`)
	add("chan.recv.stmt", "x = 0", "x = <- @\nx")
	add("chan.recv.ok", "x = 0\nok = 0", "x, ok = <- @\n[x, ok]")
	add("chan.close", "", `close(@)`)
	add("chan.close.recv", "", "close(@)\n[<-@, <-@]")
	// delete
	add("delete.map", "", "delete(@, \"k\")\nlen(@)")
	add("delete.map.seen", "", "delete(@, \"k\")\nv").Skip = onlyRef
	add("delete.key", `c = {"ab": 1, "k": 2, 3: 4, true: 5, 2.5: 6}`, "delete(c, @)\nlen(c)")
	add("delete.var", "ab = 1", "delete(@)\nab ?? \"gone\"")
	add("delete.var.global", "ab = 1", "delete(@, true)\nab ?? \"gone\"")
	add("delete.global.flag", "ab = 1", "func() { delete(\"ab\", @) }()\nab ?? \"gone\"")
	// throw
	add("throw", "", `throw @`)
	add("throw.message", "", "try {\n throw @\n} catch e {\n e.Message\n}").Skip = skipAddr

	// assignment targets reached by provenance (in-range index, existing key,
	// existing field, pointer); result of the statement, and the operand seen
	// through the plain variable afterwards (reference values only)
	add("set.index", "", `@[0] = 9`).Skip = isString // assigning into a string rebinds the location, not the value
	add("set.index.seen", "", "@[0] = 9\nv").Skip = onlyRef
	add("set.key", "", `@["k"] = 9`)
	add("set.key.seen", "", "@[\"k\"] = 9\nv").Skip = onlyRef
	add("set.member", "", `@.k = 9`)
	add("set.member.seen", "", "@.k = 9\nv").Skip = onlyRef
	add("set.field", "", `@.X = 9`)
	add("set.field.seen", "", "@.X = 9\nv").Skip = onlyRef
	add("set.deref", "", `*@ = 9`)
	add("set.deref.seen", "", "*@ = 9\nv").Skip = onlyRef
	add("set.slice", "", `@[0:1] = [8]`)
	add("set.multi", "", "@[0], @[1] = 7, 8\nv").Skip = onlyRef

	// defer / go callee and argument
	add("defer.callee", "func t() {\n defer @()\n return 1\n}", "[t(), cnt]")
	add("defer.callee.arg", "func t() {\n defer @(1)\n return 1\n}", "[t(), cnt]")
	add("defer.arg", "got = nil\nfunc d(x) { got = x }\nfunc t() {\n defer d(@)\n return 1\n}", "[t(), got]")
	add("go.callee", "", "go @()\n1")
	add("go.arg", "func d(x) { return x }", "go d(@)\n1")

	// the hole is the location itself
	for _, o := range []struct{ id, stmt string }{
		{"inc", "@++"}, {"dec", "@--"}, {"addassign", "@ += 1"}, {"subassign", "@ -= 1"},
		{"mulassign", "@ *= 2"}, {"divassign", "@ /= 2"}, {"andassign", "@ &= 1"}, {"orassign", "@ |= 1"},
	} {
		add(o.id, "", o.stmt+"\n@").Lvalue = true
	}
	add("addassign.rhs", "x = 1", "x += @\nx")

	// literals and typed literals
	add("lit.list", "", `[@]`)
	add("lit.list2", "", `[1, @]`)
	add("lit.map.value", "", `{"k": @}`)
	add("lit.map.key", "", `{@: 1}`)
	add("lit.tslice", "", `[]int64{@}`)
	add("lit.islice", "", `[]interface{@}`)
	add("lit.tmap.value", "", `map[string]int64{"k": @}`)
	add("lit.tmap.key", "", `map[string]int64{@: 1}`)
	// return, multiple assignment, comma-ok
	add("return.func", "func t() { return @ }", `t()`)
	add("return.func2", "func t() { return 1, @ }", `t()`)
	add("return.top", "", `return @`)
	add("lets.unpack", "a = 0\nb = 0\nc = 0", "a, b, c = @\n[a, b]")
	add("var.unpack", "", "var a, b = @\n[a, b]")
	add("lets.pair", "a = 0\nb = 0", "a, b = 1, @\n[a, b]")
	add("var.single", "", "var a = @\na")
	add("commaok.base", "x = 0\nok = 0", "x, ok = @[\"k\"]\n[x, ok]")
	add("commaok.key", "x = 0\nok = 0\nc = {\"ab\": 7, 3: 8}", "x, ok = c[@]\n[x, ok]")
	return ts
}
