package c20

import (
	"fmt"
	"reflect"
	"sort"
	"strings"

	"github.com/mattn/anko/env"
)

// ---------- host types bound into the environment ----------

// Pt is the struct operand value.
type Pt struct {
	X int64
	F interface{}
}

// Sum has a value receiver.
func (p Pt) Sum() int64 { return p.X + 1 }

// Inc has a pointer receiver.
func (p *Pt) Inc() int64 { p.X++; return p.X }

// Total and Plus have value receivers, Bump a pointer receiver.
func (p Pt) Total() int64        { return p.X }
func (p Pt) Plus(n int64) int64  { return p.X + n }
func (p *Pt) Bump(n int64) int64 { p.X += n; return p.X }

// Named non-struct types with methods: a wrapped receiver must still find them.
type (
	Totals  map[string]int64
	Names   []string
	Fn      func(int64) int64
	Celsius float64
	Ticks   int64
	Label   string
)

func (t Totals) Total() int64 {
	var s int64
	for _, x := range t {
		s += x
	}
	return s
}
func (t Totals) Plus(n int64) int64  { return t.Total() + n }
func (t Totals) Bump(n int64) int64  { t["k"] += n; return t["k"] }
func (n Names) Total() int64         { return int64(len(n)) }
func (n Names) Plus(k int64) int64   { return int64(len(n)) + k }
func (f Fn) Total() int64            { return f(1) }
func (f Fn) Plus(n int64) int64      { return f(n) }
func (c Celsius) Total() int64       { return int64(c) }
func (c Celsius) Plus(n int64) int64 { return int64(c) + n }
func (t Ticks) Total() int64         { return int64(t) }
func (t Ticks) Plus(n int64) int64   { return int64(t) + n }
func (t *Ticks) Bump(n int64) int64  { *t += Ticks(n); return int64(*t) }
func (l Label) Total() int64         { return int64(len(l)) }
func (l Label) Plus(n int64) int64   { return int64(len(l)) + n }

// Box is the provenance container "Go struct with an interface{} field".
type Box struct {
	F interface{}
}

// ---------- operand values ----------

// valueSpec is one operand value.  Every run gets a fresh instance (operations
// mutate), built either by the harness in Go (mk) or by a script line (init).
type valueSpec struct {
	ID   string
	Desc string             // canonical text used in Case
	mk   func() interface{} // nil when the value is created by the script line
	init string             // script line that binds v (script functions)
	// ref: the value is a reference (writes through it are visible through
	// every copy), so "observe v after a write through H" is meaningful.
	ref bool
	// addr: formatting the value with fmt prints an address.
	addr bool
	// openChan: receiving until close would block.
	openChan bool
	// huge: not usable as a size or repeat count (2^53+1: not representable as float64).
	huge bool
}

var values = []*valueSpec{
	{ID: "int", Desc: "int64(3)", mk: func() interface{} { return int64(3) }},
	{ID: "bigint", Desc: "int64(5000)", mk: func() interface{} { return int64(5000) }},
	{ID: "huge", Desc: "int64(9007199254740993)", huge: true, mk: func() interface{} { return int64(9007199254740993) }},
	{ID: "float", Desc: "float64(2.5)", mk: func() interface{} { return float64(2.5) }},
	{ID: "string", Desc: `"ab"`, mk: func() interface{} { return "ab" }},
	{ID: "bool", Desc: "true", mk: func() interface{} { return true }},
	{ID: "nil", Desc: "nil", mk: func() interface{} { return nil }},
	{ID: "list", Desc: `[]interface{}{int64(3),"ab"}`, ref: true, mk: func() interface{} { return []interface{}{int64(3), "ab"} }},
	{ID: "map", Desc: `map[interface{}]interface{}{"k":int64(3)}`, ref: true, mk: func() interface{} { return map[interface{}]interface{}{"k": int64(3)} }},
	{ID: "tslice", Desc: "[]int64{4,5}", ref: true, mk: func() interface{} { return []int64{4, 5} }},
	{ID: "tmap", Desc: `map[string]int64{"k":3}`, ref: true, mk: func() interface{} { return map[string]int64{"k": 3} }},
	{ID: "ptr", Desc: "p:=new(int64);*p=7", ref: true, addr: true, mk: func() interface{} { p := new(int64); *p = 7; return p }},
	{ID: "iptr", Desc: "var i interface{}=int64(7);&i", ref: true, addr: true, mk: func() interface{} { var i interface{} = int64(7); return &i }},
	{ID: "chan", Desc: "c:=make(chan int64,2);c<-11", ref: true, addr: true, openChan: true, mk: func() interface{} { c := make(chan int64, 2); c <- 11; return c }},
	{ID: "cchan", Desc: "c:=make(chan int64,2);c<-11;c<-12;close(c)", ref: true, addr: true, mk: func() interface{} {
		c := make(chan int64, 2)
		c <- 11
		c <- 12
		close(c)
		return c
	}},
	{ID: "sfunc", Desc: "script:func(x){return x+1}", addr: true, init: "v = func(x) { return x + 1 }"},
	{ID: "svfunc", Desc: "script:func(a...){cnt=cnt+1;return len(a)}", addr: true, init: "v = func(a...) { cnt = cnt + 1; return len(a) }"},
	{ID: "gofunc", Desc: "func(x int64) int64{return x+1}", addr: true, mk: func() interface{} { return func(x int64) int64 { return x + 1 } }},
	{ID: "struct", Desc: "Pt{X:4,F:int64(5)}", mk: func() interface{} { return Pt{X: 4, F: int64(5)} }},
	{ID: "sptr", Desc: "&Pt{X:4,F:int64(5)}", ref: true, mk: func() interface{} { return &Pt{X: 4, F: int64(5)} }},
	// named non-struct types with methods (value receivers), and pointers to named types
	{ID: "nmap", Desc: `Totals{"k":3}`, ref: true, mk: func() interface{} { return Totals{"k": 3} }},
	{ID: "nslice", Desc: `Names{"a","b"}`, ref: true, mk: func() interface{} { return Names{"a", "b"} }},
	{ID: "nfunc", Desc: "Fn(func(x int64) int64{return x+1})", addr: true, mk: func() interface{} { return Fn(func(x int64) int64 { return x + 1 }) }},
	{ID: "nfloat", Desc: "Celsius(2.5)", mk: func() interface{} { return Celsius(2.5) }},
	{ID: "nint", Desc: "Ticks(6)", mk: func() interface{} { return Ticks(6) }},
	{ID: "nstring", Desc: `Label("ab")`, mk: func() interface{} { return Label("ab") }},
	{ID: "nintptr", Desc: "t:=Ticks(6);&t", ref: true, addr: true, mk: func() interface{} { t := Ticks(6); return &t }},
	{ID: "nmapptr", Desc: `t:=Totals{"k":3};&t`, ref: true, addr: true, mk: func() interface{} { t := Totals{"k": 3}; return &t }},
}

func valueByID(id string) *valueSpec {
	for _, v := range values {
		if v.ID == id {
			return v
		}
	}
	return nil
}

// ---------- host functions (stateless; bound identically in every run) ----------

type hostFn struct {
	name string
	rv   reflect.Value
}

var hostFns = func() []hostFn {
	m := map[string]interface{}{
		// the provenance hop "Go function declared to return interface{}"
		"gid": func(x interface{}) interface{} { return x },
		// the provenance hops "struct field"
		"mkbox":  func(x interface{}) Box { return Box{F: x} },
		"mkboxp": func(x interface{}) *Box { return &Box{F: x} },
		// Go callees of the call-argument templates
		"gany":  func(x interface{}) []interface{} { return []interface{}{fmt.Sprintf("%T", x), x} },
		"gint":  func(x int64) int64 { return x + 100 },
		"gf64":  func(x float64) float64 { return x + 0.5 },
		"gstr":  func(x string) string { return x + "!" },
		"gbool": func(x bool) bool { return !x },
		"gsl":   func(x []int64) int64 { return int64(len(x)) },
		"gisl":  func(x []interface{}) int64 { return int64(len(x)) },
		"gmap":  func(x map[string]int64) int64 { return int64(len(x)) + x["k"] },
		"gfn":   func(f func(int64) int64) int64 { return f(1) },
		"gptr": func(p *int64) int64 {
			if p == nil {
				return -1
			}
			return *p
		},
		"gptrset": func(p *int64) int64 {
			if p == nil {
				return -1
			}
			*p = 99
			return 0
		},
		"gvar": func(xs ...interface{}) []interface{} { return append([]interface{}{int64(len(xs))}, xs...) },
		"g1var": func(a interface{}, xs ...interface{}) []interface{} {
			return append([]interface{}{a, int64(len(xs))}, xs...)
		},
		"gvari": func(xs ...int64) int64 {
			var s int64
			for _, x := range xs {
				s += x
			}
			return s
		},
		"g2": func(a, b interface{}) []interface{} { return []interface{}{a, b} },
	}
	var names []string
	for k := range m {
		names = append(names, k)
	}
	sort.Strings(names)
	var out []hostFn
	for _, n := range names {
		out = append(out, hostFn{n, reflect.ValueOf(m[n])})
	}
	return out
}()

// newEnv prepares the environment of one run: host functions and, for
// Go-built values, the operand in the plain variable v.
func newEnv(val *valueSpec) *env.Env {
	e := env.NewEnv()
	for _, f := range hostFns {
		e.DefineValue(f.name, f.rv)
	}
	if val.mk != nil {
		e.Define("v", val.mk())
	}
	return e
}

// ---------- canonical rendering (no addresses) ----------

func render(x interface{}) string {
	var b strings.Builder
	if x == nil {
		return "nil"
	}
	rend(&b, reflect.ValueOf(x), 0)
	return b.String()
}

var (
	reflectValueType = reflect.TypeOf(reflect.Value{})
	envPtrType       = reflect.TypeOf(&env.Env{})
)

func rend(b *strings.Builder, v reflect.Value, depth int) {
	if !v.IsValid() {
		b.WriteString("invalid")
		return
	}
	if depth > 8 {
		b.WriteString("...")
		return
	}
	t := v.Type()
	if t == reflectValueType && v.CanInterface() {
		b.WriteString("reflect.Value(")
		rend(b, v.Interface().(reflect.Value), depth+1)
		b.WriteString(")")
		return
	}
	if t == envPtrType {
		b.WriteString("*env.Env")
		return
	}
	switch v.Kind() {
	case reflect.Interface:
		if v.IsNil() {
			b.WriteString("nil")
			return
		}
		rend(b, v.Elem(), depth+1)
	case reflect.Bool:
		fmt.Fprintf(b, "%s:%v", t, v.Bool())
	case reflect.Int, reflect.Int8, reflect.Int16, reflect.Int32, reflect.Int64:
		fmt.Fprintf(b, "%s:%d", t, v.Int())
	case reflect.Uint, reflect.Uint8, reflect.Uint16, reflect.Uint32, reflect.Uint64, reflect.Uintptr:
		fmt.Fprintf(b, "%s:%d", t, v.Uint())
	case reflect.Float32, reflect.Float64:
		fmt.Fprintf(b, "%s:%v", t, v.Float())
	case reflect.Complex64, reflect.Complex128:
		fmt.Fprintf(b, "%s:%v", t, v.Complex())
	case reflect.String:
		fmt.Fprintf(b, "%s:%q", t, v.String())
	case reflect.Slice, reflect.Array:
		fmt.Fprintf(b, "%s[", t)
		for i := 0; i < v.Len(); i++ {
			if i > 0 {
				b.WriteString(",")
			}
			rend(b, v.Index(i), depth+1)
		}
		b.WriteString("]")
	case reflect.Map:
		fmt.Fprintf(b, "%s{", t)
		var ents []string
		iter := v.MapRange()
		for iter.Next() {
			var eb strings.Builder
			rend(&eb, iter.Key(), depth+1)
			eb.WriteString("=")
			rend(&eb, iter.Value(), depth+1)
			ents = append(ents, eb.String())
		}
		sort.Strings(ents)
		b.WriteString(strings.Join(ents, ","))
		b.WriteString("}")
	case reflect.Ptr:
		if v.IsNil() {
			fmt.Fprintf(b, "%s(nil)", t)
			return
		}
		fmt.Fprintf(b, "%s->", t)
		rend(b, v.Elem(), depth+1)
	case reflect.Struct:
		fmt.Fprintf(b, "%s{", t)
		for i := 0; i < v.NumField(); i++ {
			if i > 0 {
				b.WriteString(",")
			}
			b.WriteString(t.Field(i).Name)
			b.WriteString("=")
			rend(b, v.Field(i), depth+1)
		}
		b.WriteString("}")
	case reflect.Chan:
		if v.IsNil() {
			fmt.Fprintf(b, "%s(nil)", t)
			return
		}
		fmt.Fprintf(b, "%s(len=%d,cap=%d)", t, v.Len(), v.Cap())
	case reflect.Func:
		if v.IsNil() {
			fmt.Fprintf(b, "%s(nil)", t)
			return
		}
		fmt.Fprintf(b, "func:%s", t)
	default:
		fmt.Fprintf(b, "%s:kind=%s", t, v.Kind())
	}
}
