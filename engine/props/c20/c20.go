// Package c20: a value behaves the same wherever it came from.
//
// Purely differential exploration: every operation template (one or two operand
// holes) is instantiated with every operand value and every provenance chain up
// to the bound; result value (canonical, address-free rendering), dynamic type
// of what vm.Execute returns and error-vs-success must equal those of the same
// template with the operand read from a plain variable.  Every run uses a fresh
// environment and fresh operand objects.
package c20

import (
	"fmt"
	"hash/fnv"
	"reflect"
	"runtime/debug"
	"strings"
	"sync"
	"sync/atomic"
	"time"

	"github.com/mattn/anko/parser"
	"github.com/mattn/anko/vm"
	"verif/engine/common"
	"verif/engine/lib/stepctx"
)

const fuel = 20000

// outcome of one run.
type outcome struct {
	Kind string // ok | err | panic | parse | interrupt
	Type string // dynamic type of the result (ok only)
	Val  string // canonical rendering (ok only)
	Msg  string // error / panic text: informational, never compared
}

func (o outcome) key() string {
	switch o.Kind {
	case "ok":
		return "ok|" + o.Type + "|" + o.Val
	}
	return o.Kind
}

func (o outcome) String() string {
	switch o.Kind {
	case "ok":
		return fmt.Sprintf("success type=%s value=%s", o.Type, o.Val)
	}
	return fmt.Sprintf("%s (%s)", o.Kind, o.Msg)
}

var watchdogFired int32

// slot is the run in flight of one worker; a monitor goroutine cancels a run
// that has been blocked for more than 10 s (safety net only: such a run leaves
// the compared set and the evidence says exhaustive:false).
type slot struct {
	ctx   atomic.Pointer[stepctx.Ctx]
	start atomic.Int64
}

var (
	slotsMu sync.Mutex
	slots   = map[*slot]struct{}{}
	monitor sync.Once
)

func newSlot() *slot {
	monitor.Do(func() {
		go func() {
			for {
				time.Sleep(500 * time.Millisecond)
				now := time.Now().UnixNano()
				slotsMu.Lock()
				for s := range slots {
					if c := s.ctx.Load(); c != nil && now-s.start.Load() > int64(10*time.Second) {
						atomic.StoreInt32(&watchdogFired, 1)
						c.Cancel()
					}
				}
				slotsMu.Unlock()
			}
		}()
	})
	s := &slot{}
	slotsMu.Lock()
	slots[s] = struct{}{}
	slotsMu.Unlock()
	return s
}

func (s *slot) release() {
	slotsMu.Lock()
	delete(slots, s)
	slotsMu.Unlock()
}

// execute runs src on a fresh environment holding a fresh instance of val.
func execute(sl *slot, val *valueSpec, src string) (out outcome) {
	stmt, err := parser.ParseSrc(src)
	if err != nil {
		return outcome{Kind: "parse", Msg: err.Error()}
	}
	e := newEnv(val)
	// the Go-call hop counts its invocations: an operand that arrives through
	// gid(...) is produced by ONE call per written occurrence, as an operand that
	// sits in a variable is read once ("behaves identically in every ... position")
	gidCalls := 0
	e.DefineValue("gid", reflect.ValueOf(func(x interface{}) interface{} { gidCalls++; return x }))
	written := strings.Count(src, "gid(")
	ctx := stepctx.Fuel(fuel)
	sl.start.Store(time.Now().UnixNano())
	sl.ctx.Store(ctx)
	defer sl.ctx.Store(nil)
	defer func() {
		if r := recover(); r != nil {
			out = outcome{Kind: "panic", Msg: fmt.Sprint(r)}
		}
	}()
	res, err := vm.RunContext(ctx, e, &vm.Options{Debug: false}, stmt)
	if ctx.Cancelled() {
		return outcome{Kind: "interrupt", Msg: "fuel exhausted or watchdog"}
	}
	if err != nil {
		if err == vm.ErrInterrupt || err.Error() == vm.ErrInterrupt.Error() {
			return outcome{Kind: "interrupt", Msg: err.Error()}
		}
		return outcome{Kind: "err", Msg: err.Error()}
	}
	t := "<nil>"
	if res != nil {
		t = reflect.TypeOf(res).String()
	}
	if gidCalls > written {
		return outcome{Kind: "ok-but-operand-produced-again", Type: t, Val: render(res), Msg: fmt.Sprintf("gid was called %d times, it is written %d times", gidCalls, written)}
	}
	return outcome{Kind: "ok", Type: t, Val: render(res)}
}

// replayCase identifies one case.
type replayCase struct {
	Template string   `json:"template"`
	Value    string   `json:"value"`
	Chain    []string `json:"chain"`
}

func caseText(val *valueSpec, src string) string {
	return "v := " + val.Desc + "\n" + src
}

type workItem struct {
	t   *template
	val *valueSpec
}

func run(c *common.Ctx) *common.Result {
	res := common.NewResult()
	defer debug.SetGCPercent(debug.SetGCPercent(400)) // many short-lived parses; the live heap is tiny
	maxLen := 2
	if c.Thorough() {
		maxLen = 3
	}
	chains := allChains(maxLen)
	res.Add("chains", int64(len(chains)))
	res.Add("templates", int64(len(templates)))
	res.Add("values", int64(len(values)))
	res.Max("chain_length", int64(maxLen))

	var items []workItem
	for _, t := range templates {
		for _, v := range values {
			if t.Skip != nil && t.Skip(v) {
				res.Add("template_value_excluded", 1)
				continue
			}
			items = append(items, workItem{t, v})
		}
	}
	var capped int32
	common.ParallelFor(c, len(items), func(i int) {
		if c.Expired() {
			atomic.StoreInt32(&capped, 1)
			return
		}
		runItem(c, res, items[i], chains, i)
	})
	if capped != 0 {
		res.Cap("soft deadline reached before all (template,value) pairs were explored")
	}
	if atomic.LoadInt32(&watchdogFired) != 0 {
		res.Cap("a run blocked and was cancelled by the safety watchdog (left out of the compared set)")
	}
	return res
}

// counters batches the additive counters of one work item.
type counters struct {
	res *common.Result
	m   map[string]int64
}

func (k *counters) Add(key string, n int64) { k.m[key] += n }
func (k *counters) flush() {
	for key, n := range k.m {
		k.res.Add(key, n)
	}
}

func runItem(c *common.Ctx, shared *common.Result, it workItem, chains []chain, idx int) {
	t, val := it.t, it.val
	cnt := &counters{res: shared, m: map[string]int64{}}
	defer cnt.flush()
	sl := newSlot()
	defer sl.release()
	execute := func(val *valueSpec, src string) outcome { return execute(sl, val, src) }
	res := struct {
		*counters
		Distinct func(set, s string) bool
		Sample   func(x interface{})
		Violate  func(v common.Violation)
	}{cnt, shared.Distinct, shared.Sample, shared.Violate}
	baseSrc := t.source(val, nil)
	base := execute(val, baseSrc)
	res.Add("evaluations", 1)
	if base.Kind == "parse" {
		res.Add("baseline_unparsable", 1)
		res.Distinct("unparsable_baselines", t.ID)
		return
	}
	if base.Kind == "interrupt" {
		res.Add("baseline_interrupted", 1)
		return
	}
	// determinism guard: the baseline must repeat on fresh objects
	base2 := execute(val, baseSrc)
	res.Add("evaluations", 1)
	if base2.key() != base.key() {
		res.Add("baseline_nondeterministic", 1)
		res.Distinct("nondeterministic_baselines", t.ID+"/"+val.ID)
		return
	}
	res.Add("baselines", 1)
	res.Distinct("outcomes", base.key())
	if base.Kind == "ok" {
		res.Add("baselines_success", 1)
	} else {
		res.Add("baselines_"+base.Kind, 1)
	}

	base0 := base
	seen := map[uint64]struct{}{}
	minFail := map[string]int{} // origin -> length of the shortest failing chain
	for ci, ch := range chains {
		if t.Lvalue && !ch.lvalue() {
			res.Add("chain_not_a_location", 1)
			continue
		}
		src := t.source(val, ch)
		got := execute(val, src)
		res.Add("evaluations", 1)
		// the baseline of this case: the same program, containers and all,
		// with the operand read from the plain variable
		base, baseSrc := base, baseSrc
		if pro, _ := ch.build(); pro != "" {
			baseSrc = t.baseline(val, ch)
			base = execute(val, baseSrc)
			res.Add("evaluations", 1)
			if base.Kind == "parse" || base.Kind == "interrupt" {
				res.Add("baseline_with_prologue_not_comparable", 1)
				continue
			}
			if base.key() != base0.key() {
				res.Add("prologue_changes_baseline", 1)
			}
		}
		switch got.Kind {
		case "parse":
			res.Add("variant_unparsable", 1)
			res.Distinct("unparsable", t.ID+" with "+ch.String())
			continue
		case "interrupt":
			res.Add("variant_interrupted", 1)
			continue
		}
		h := fnv.New64a()
		h.Write([]byte(src))
		seen[h.Sum64()] = struct{}{}
		res.Add("compared", 1)
		if base.Kind == "ok" {
			res.Add("compared_baseline_success", 1)
		}
		if (idx+ci)%9973 == 0 {
			res.Sample(map[string]interface{}{"template": t.ID, "value": val.Desc, "chain": ch.String(), "program": src, "baseline": base.String(), "variant": got.String()})
		}
		if got.key() == base.key() {
			continue
		}
		// confirm before believing: both sides once more on fresh objects
		if b3, g2 := execute(val, baseSrc), execute(val, src); b3.key() != base.key() || g2.key() != got.key() {
			res.Add("evaluations", 2)
			res.Add("unconfirmed_divergence", 1)
			res.Distinct("nondeterministic_cases", t.ID+"/"+val.ID+"/"+ch.String())
			continue
		}
		res.Add("evaluations", 2)
		res.Add("failing_cases", 1)
		org := ch.origin()
		if l, ok := minFail[org]; ok && l < len(ch) {
			res.Add("failing_cases_subsumed_by_shorter_chain", 1)
			continue
		}
		minFail[org] = len(ch)
		res.Violate(common.Violation{
			Class:  t.ID + "/" + org,
			Case:   caseText(val, src),
			Detail: fmt.Sprintf("template %s, operand %s, provenance %s: plain variable gives %s; through the chain gives %s", t.ID, val.Desc, ch.String(), base.String(), got.String()),
			Replay: replayCase{Template: t.ID, Value: val.ID, Chain: ch.names()},
		})
	}
	res.Add("distinct_nontrivial", int64(len(seen)))
}

func coverage(c *common.Ctx, r *common.Result) map[string]interface{} {
	return map[string]interface{}{
		"evaluations":                    r.Counts["evaluations"],
		"distinct_nontrivial":            r.Counts["distinct_nontrivial"],
		"rule":                           "a case is (operation template, operand value, provenance chain); it is non-trivial when the plain-variable baseline parsed, finished within the fuel and repeated identically on fresh objects, and the chained program parsed and finished within the fuel, so that the two observations were actually compared; counted as distinct program texts per (template, value)",
		"templates":                      r.Counts["templates"],
		"operand_values":                 r.Counts["values"],
		"chains":                         r.Counts["chains"],
		"max_chain_length":               r.GetMax("chain_length"),
		"baselines":                      r.Counts["baselines"],
		"baselines_success":              r.Counts["baselines_success"],
		"baselines_error":                r.Counts["baselines_err"],
		"baselines_panic":                r.Counts["baselines_panic"],
		"compared":                       r.Counts["compared"],
		"compared_with_legal_operand":    r.Counts["compared_baseline_success"],
		"distinct_outcomes":              r.SetSize("outcomes"),
		"failing_cases":                  r.Counts["failing_cases"],
		"failing_cases_reported_minimal": r.Counts["failing_cases"] - r.Counts["failing_cases_subsumed_by_shorter_chain"],
		"excluded": map[string]interface{}{
			"template_value_pairs_not_comparable":   r.Counts["template_value_excluded"],
			"chain_not_a_location":                  r.Counts["chain_not_a_location"],
			"variant_unparsable":                    r.Counts["variant_unparsable"],
			"interrupted":                           r.Counts["variant_interrupted"] + r.Counts["baseline_interrupted"],
			"baseline_with_prologue_not_comparable": r.Counts["baseline_with_prologue_not_comparable"],
			"prologue_changes_baseline":             r.Counts["prologue_changes_baseline"],
			"baseline_nondeterministic":             r.SetMembers("nondeterministic_baselines"),
			"unconfirmed_divergences":               r.SetMembers("nondeterministic_cases"),
			"unparsable":                            r.SetMembers("unparsable"),
			"unparsable_baselines":                  r.SetMembers("unparsable_baselines"),
		},
	}
}

func replay(c *common.Ctx, path string) int {
	var rc replayCase
	if _, _, err := common.ReadReplay(path, &rc); err != nil {
		fmt.Println("cannot read replay:", err)
		return 2
	}
	t, val := templateByID(rc.Template), valueByID(rc.Value)
	if t == nil || val == nil {
		fmt.Println("replay names an unknown template or value")
		return 2
	}
	var ch chain
	for _, n := range rc.Chain {
		h, ok := hopByName(n)
		if !ok {
			fmt.Println("replay names an unknown hop", n)
			return 2
		}
		ch = append(ch, h)
	}
	baseSrc, src := t.baseline(val, ch), t.source(val, ch)
	sl := newSlot()
	defer sl.release()
	b1, g1 := execute(sl, val, baseSrc), execute(sl, val, src)
	b2, g2 := execute(sl, val, baseSrc), execute(sl, val, src)
	fmt.Println("operand v :=", val.Desc)
	fmt.Println("--- plain variable ---\n" + baseSrc)
	fmt.Println("=>", b1)
	fmt.Println("--- provenance " + ch.String() + " ---\n" + src)
	fmt.Println("=>", g1)
	if b1.key() != b2.key() || g1.key() != g2.key() {
		fmt.Println("NONDETERMINISTIC replay")
		return 2
	}
	if b1.Kind == "parse" || g1.Kind == "parse" || b1.Kind == "interrupt" || g1.Kind == "interrupt" {
		fmt.Println("replay: outside the compared set")
		return 0
	}
	if b1.key() == g1.key() {
		fmt.Println("replay: same behaviour")
		return 0
	}
	fmt.Println("replay: behaviour differs")
	return 1
}

func init() {
	common.Register(&common.Prop{
		ID: "C20", Level: "exploration", Run: run, Coverage: coverage, Replay: replay,
		Assumptions: []string{
			"operand values: " + valueList(),
			"provenance hops: " + strings.Join(hopNames[:], ", ") + "; chains of length 1..2 (quick) / 1..3 (thorough); containers are built by prologue lines from the previous expression, struct fields and the interface{}-returning function are host-bound",
			"the oracle is the same template with the operand read from the plain variable v (bound by the host with env.Define, or by `v = func...` for script functions)",
			"compared: error-vs-success, dynamic type of the value vm.Execute returns, canonical rendering (pointers by pointee, channels by type/len/cap, functions by type; nil and empty slices/maps not distinguished; capacity not rendered); messages never compared",
			"not comparable and excluded: for-in over an open channel (blocks), string concatenation / throw message / string parameter with values whose formatting prints an address, `H++`-style templates with chains that are not locations, observation of v after a write for non-reference values",
			"per (template, value, wrapper origin) only the failing cases of the shortest failing chain length are reported; longer ones are counted",
		},
	})
}

func valueList() string {
	var p []string
	for _, v := range values {
		p = append(p, v.Desc)
	}
	return strings.Join(p, "; ")
}
