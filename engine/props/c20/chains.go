package c20

import (
	"fmt"
	"strings"
)

// A hop is one way a value can be obtained.  A chain applies hops to the plain
// variable v, innermost first; containers are built by prologue lines (which
// are identical text for nothing but the chain: the baseline has no chain).
type hop int

const (
	hElem   hop = iota // cN = [E]          ; cN[0]
	hMapIdx            // cN = {"k": E}     ; cN["k"]
	hMember            // cN = {"k": E}     ; cN.k
	hField             // cN = mkboxp(E)    ; cN.F   (*Box, addressable field of type interface{})
	hFieldV            // cN = mkbox(E)     ; cN.F   (Box value, non-addressable field)
	hSCall             // id(E)             script function func id(x){return x}
	hGCall             // gid(E)            Go func(interface{}) interface{}
	hParen             // (E)
	hTern              // (true ? E : nil)
	hCoal              // (E ?? nil)
	hLet               // cN = E            ; cN
	hVar               // var cN = E        ; cN
	numHops
)

var hopNames = [...]string{"elem", "mapidx", "member", "field", "fieldv", "scall", "gcall", "paren", "tern", "coal", "let", "var"}

func (h hop) String() string { return hopNames[h] }

func hopByName(s string) (hop, bool) {
	for i, n := range hopNames {
		if n == s {
			return hop(i), true
		}
	}
	return 0, false
}

type chain []hop

func (c chain) String() string {
	if len(c) == 0 {
		return "v"
	}
	p := make([]string, len(c))
	for i, h := range c {
		p[i] = h.String()
	}
	return strings.Join(p, ">")
}

func (c chain) names() []string {
	p := make([]string, len(c))
	for i, h := range c {
		p[i] = h.String()
	}
	return p
}

// build returns the prologue lines and the expression that denotes the value.
func (c chain) build() (prologue, expr string) {
	expr = "v"
	var b strings.Builder
	for i, h := range c {
		n := i + 1
		switch h {
		case hElem:
			fmt.Fprintf(&b, "c%d = [%s]\n", n, expr)
			expr = fmt.Sprintf("c%d[0]", n)
		case hMapIdx:
			fmt.Fprintf(&b, "c%d = {\"k\": %s}\n", n, expr)
			expr = fmt.Sprintf("c%d[\"k\"]", n)
		case hMember:
			fmt.Fprintf(&b, "c%d = {\"k\": %s}\n", n, expr)
			expr = fmt.Sprintf("c%d.k", n)
		case hField:
			fmt.Fprintf(&b, "c%d = mkboxp(%s)\n", n, expr)
			expr = fmt.Sprintf("c%d.F", n)
		case hFieldV:
			fmt.Fprintf(&b, "c%d = mkbox(%s)\n", n, expr)
			expr = fmt.Sprintf("c%d.F", n)
		case hSCall:
			expr = "id(" + expr + ")"
		case hGCall:
			expr = "gid(" + expr + ")"
		case hParen:
			expr = "(" + expr + ")"
		case hTern:
			expr = "(true ? " + expr + " : nil)"
		case hCoal:
			expr = "(" + expr + " ?? nil)"
		case hLet:
			fmt.Fprintf(&b, "c%d = %s\n", n, expr)
			expr = fmt.Sprintf("c%d", n)
		case hVar:
			fmt.Fprintf(&b, "var c%d = %s\n", n, expr)
			expr = fmt.Sprintf("c%d", n)
		}
	}
	return b.String(), expr
}

// lvalue reports whether the chain's expression is an assignable location
// whose assignment does not need anything but the location itself.
func (c chain) lvalue() bool {
	if len(c) == 0 {
		return true
	}
	switch c[len(c)-1] {
	case hElem, hMapIdx, hMember, hField, hLet, hVar:
		return true
	}
	return false
}

// origin names, for the violation class only (the oracle does not use it),
// the hop that leaves the value statically typed interface{} at the end of the
// chain: a slice element, a struct field and a Go result are handed on as
// reflect.Values of kind Interface; map reads and assignment strip the
// wrapper; calls of script functions, parentheses, ?:, ?? and `var` pass
// whatever they got.  "plain:<last hop>" when no wrapper is expected.
func (c chain) origin() string {
	w := ""
	for _, h := range c {
		switch h {
		case hElem, hField, hFieldV, hGCall:
			w = h.String()
		case hMapIdx, hMember, hLet:
			w = ""
		}
	}
	if w != "" {
		return w
	}
	if len(c) == 0 {
		return "plain"
	}
	return "plain:" + c[len(c)-1].String()
}

// allChains enumerates every chain of length 1..maxLen in order of length,
// then lexicographically by hop index.
func allChains(maxLen int) []chain {
	var out []chain
	var cur []chain = []chain{{}}
	for l := 1; l <= maxLen; l++ {
		var next []chain
		for _, p := range cur {
			for h := hop(0); h < numHops; h++ {
				n := make(chain, len(p)+1)
				copy(n, p)
				n[len(p)] = h
				next = append(next, n)
			}
		}
		out = append(out, next...)
		cur = next
	}
	return out
}
