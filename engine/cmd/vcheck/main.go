// vcheck: one binary; check.sh adds (through the overlay) a file importing the
// package of the property being checked, so a checker that does not build
// cannot break the others.
package main

import "verif/engine/common"

func main() { common.Main() }
