// vcheck: one binary, one sub-checker per property.
package main

import (
	"verif/engine/common"

	_ "verif/engine/props/c12"
)

func main() { common.Main() }
