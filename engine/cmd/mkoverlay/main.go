// mkoverlay rewrites files of the *current* repository tree into an overlay
// (go build -overlay): vm (Select/Close/Send/Recv/go -> vhook), env (sync import
// swap + lockset Access hooks + a dump file), parser (yield at the top of Lex).
// The rewrites are syntactic patterns, not line patches.  Exit 2 when a pattern
// that must match no longer does.
package main

import (
	"bytes"
	"encoding/json"
	"flag"
	"fmt"
	"go/ast"
	"go/format"
	"go/parser"
	"go/token"
	"os"
	"path/filepath"
	"strconv"
	"strings"
)

var (
	repo = flag.String("repo", "/repo", "repository root")
	out  = flag.String("out", "", "output directory")
	shim = flag.String("shim", "/verif/engine/shim", "shim package directory")
)

func die(f string, a ...interface{}) {
	fmt.Fprintf(os.Stderr, "mkoverlay: "+f+"\n", a...)
	os.Exit(2)
}

func main() {
	flag.Parse()
	if *out == "" {
		die("need -out")
	}
	os.MkdirAll(*out, 0o755)
	repl := map[string]string{}
	counts := map[string]int{}
	total := map[string]int{}
	if envFiles, _ := filepath.Glob(filepath.Join(*repo, "env", "*.go")); true {
		for _, f := range envFiles {
			if strings.HasSuffix(f, "_test.go") {
				continue
			}
			if af, err := parser.ParseFile(token.NewFileSet(), f, nil, 0); err == nil {
				collectEnvFields(af)
			}
		}
	}
	for _, pkg := range []string{"vm", "env", "parser"} {
		files, _ := filepath.Glob(filepath.Join(*repo, pkg, "*.go"))
		for _, f := range files {
			if strings.HasSuffix(f, "_test.go") {
				continue
			}
			fset := token.NewFileSet()
			af, err := parser.ParseFile(fset, f, nil, parser.ParseComments)
			if err != nil {
				die("parse %s: %v", f, err)
			}
			n := 0
			switch pkg {
			case "vm":
				n = rewriteVM(fset, af, total)
			case "env":
				n = rewriteEnv(fset, af, total)
			case "parser":
				if filepath.Base(f) == "lexer.go" {
					n = rewriteLexer(af, total)
				}
				// every sync/atomic operation of the parser package is a schedule point
				// too (an edit may add lock-free state that outlives one ParseSrc call)
				for _, im := range af.Imports {
					if im.Path.Value == `"sync/atomic"` {
						im.Path.Value = `"github.com/mattn/anko/vhook/vatomic"`
						if im.Name == nil {
							im.Name = ast.NewIdent("atomic")
						}
						n++
						total["parser.atomicimport"]++
					}
				}
			}
			if n == 0 {
				continue
			}
			counts[pkg+"/"+filepath.Base(f)] = n
			var buf bytes.Buffer
			if err := format.Node(&buf, fset, af); err != nil {
				die("format %s: %v", f, err)
			}
			dst := filepath.Join(*out, pkg+"_"+filepath.Base(f))
			if err := os.WriteFile(dst, buf.Bytes(), 0o644); err != nil {
				die("%v", err)
			}
			repl[f] = dst
		}
	}
	// required patterns
	for _, k := range []string{"vm.select", "vm.go", "env.syncimport", "env.access", "parser.lex"} {
		if total[k] == 0 {
			die("pattern %s matched nothing in %s: the primitives moved out of reach of the rewriter", k, *repo)
		}
	}
	// virtual shim package
	shimFiles, _ := filepath.Glob(filepath.Join(*shim, "*.go"))
	for _, f := range shimFiles {
		repl[filepath.Join(*repo, "vhook", filepath.Base(f))] = f
	}
	vaFiles, _ := filepath.Glob(filepath.Join(*shim, "vatomic", "*.go"))
	for _, f := range vaFiles {
		repl[filepath.Join(*repo, "vhook", "vatomic", filepath.Base(f))] = f
	}
	// env dump file
	dump := filepath.Join(*out, "env_dump_verif.go")
	os.WriteFile(dump, []byte(envDump), 0o644)
	repl[filepath.Join(*repo, "env", "dump_verif.go")] = dump

	b, _ := json.MarshalIndent(map[string]interface{}{"Replace": repl}, "", " ")
	if err := os.WriteFile(filepath.Join(*out, "overlay.json"), b, 0o644); err != nil {
		die("%v", err)
	}
	sb, _ := json.MarshalIndent(map[string]interface{}{"files": counts, "patterns": total}, "", " ")
	os.WriteFile(filepath.Join(*out, "sites.json"), sb, 0o644)
}

const envDump = `package env

import (
	"reflect"

	"github.com/mattn/anko/vhook"
)

// VerifMutex exposes the scope's mutex to the lockset monitor.
func (e *Env) VerifMutex() *vhook.RWMutex { return &e.rwMutex }

// VerifParent exposes the parent link (read-only use by harnesses).
func (e *Env) VerifParent() *Env { return e.parent }

// VerifRaw returns the scope's own tables without taking the lock (only for
// harness code that runs while no other thread can).
func (e *Env) VerifRaw() (map[string]reflect.Value, map[string]reflect.Type) { return e.values, e.types }
`

func addImport(af *ast.File, name, path string) {
	for _, im := range af.Imports {
		if im.Path.Value == strconv.Quote(path) && ((im.Name == nil && name == "") || (im.Name != nil && im.Name.Name == name)) {
			return
		}
	}
	spec := &ast.ImportSpec{Path: &ast.BasicLit{Kind: token.STRING, Value: strconv.Quote(path)}}
	if name != "" {
		spec.Name = ast.NewIdent(name)
	}
	for _, d := range af.Decls {
		if gd, ok := d.(*ast.GenDecl); ok && gd.Tok == token.IMPORT {
			gd.Specs = append(gd.Specs, spec)
			af.Imports = append(af.Imports, spec)
			if !gd.Lparen.IsValid() {
				gd.Lparen = gd.Pos()
				gd.Rparen = gd.End()
			}
			return
		}
	}
	// no import decl: add one
	gd := &ast.GenDecl{Tok: token.IMPORT, Specs: []ast.Spec{spec}}
	af.Decls = append([]ast.Decl{gd}, af.Decls...)
	af.Imports = append(af.Imports, spec)
}

func vh(name string) ast.Expr {
	return &ast.SelectorExpr{X: ast.NewIdent("vhook"), Sel: ast.NewIdent(name)}
}

func rewriteVM(fset *token.FileSet, af *ast.File, total map[string]int) int {
	n := 0
	ast.Inspect(af, func(nd ast.Node) bool {
		ce, ok := nd.(*ast.CallExpr)
		if !ok {
			return true
		}
		se, ok := ce.Fun.(*ast.SelectorExpr)
		if !ok {
			return true
		}
		if id, ok := se.X.(*ast.Ident); ok && id.Name == "reflect" && se.Sel.Name == "Select" {
			id.Name = "vhook"
			n++
			total["vm.select"]++
			return true
		}
		switch {
		case se.Sel.Name == "Close" && len(ce.Args) == 0:
			ce.Args = []ast.Expr{se.X}
			ce.Fun = vh("Close")
			n++
			total["vm.close"]++
		case se.Sel.Name == "Send" && len(ce.Args) == 1:
			ce.Args = []ast.Expr{se.X, ce.Args[0]}
			ce.Fun = vh("Send")
			n++
			total["vm.send"]++
		case se.Sel.Name == "Recv" && len(ce.Args) == 0:
			ce.Args = []ast.Expr{se.X}
			ce.Fun = vh("Recv")
			n++
			total["vm.recv"]++
		case se.Sel.Name == "TrySend" && len(ce.Args) == 1:
			ce.Args = []ast.Expr{se.X, ce.Args[0]}
			ce.Fun = vh("TrySend")
			n++
			total["vm.trysend"]++
		case se.Sel.Name == "TryRecv" && len(ce.Args) == 0:
			ce.Args = []ast.Expr{se.X}
			ce.Fun = vh("TryRecv")
			n++
			total["vm.tryrecv"]++
		}
		return true
	})
	var fix func(list []ast.Stmt)
	fix = func(list []ast.Stmt) {
		for i, st := range list {
			gs, ok := st.(*ast.GoStmt)
			if !ok {
				continue
			}
			call := gs.Call
			var pre []ast.Stmt
			var inner *ast.CallExpr
			if fl, ok := call.Fun.(*ast.FuncLit); ok && len(call.Args) == 0 {
				// go func(){...}()
				inner = &ast.CallExpr{Fun: fl}
			} else {
				lhs := []ast.Expr{ast.NewIdent("vf_")}
				rhs := []ast.Expr{call.Fun}
				var args []ast.Expr
				for j, a := range call.Args {
					nm := ast.NewIdent("va" + strconv.Itoa(j) + "_")
					lhs = append(lhs, nm)
					rhs = append(rhs, a)
					args = append(args, nm)
				}
				pre = append(pre, &ast.AssignStmt{Lhs: lhs, Tok: token.DEFINE, Rhs: rhs})
				inner = &ast.CallExpr{Fun: ast.NewIdent("vf_"), Args: args, Ellipsis: call.Ellipsis}
			}
			blk := &ast.BlockStmt{List: append(pre,
				&ast.ExprStmt{X: &ast.CallExpr{
					Fun:  vh("Go"),
					Args: []ast.Expr{&ast.FuncLit{Type: &ast.FuncType{Params: &ast.FieldList{}}, Body: &ast.BlockStmt{List: []ast.Stmt{&ast.ExprStmt{X: inner}}}}},
				}})}
			list[i] = blk
			n++
			total["vm.go"]++
		}
	}
	ast.Inspect(af, func(nd ast.Node) bool {
		switch b := nd.(type) {
		case *ast.BlockStmt:
			fix(b.List)
		case *ast.CaseClause:
			fix(b.Body)
		case *ast.CommClause:
			fix(b.Body)
		}
		return true
	})
	if n > 0 {
		addImport(af, "", "github.com/mattn/anko/vhook")
	}
	return n
}

// envFields: the field names of type Env other than the mutex and the two
// guarded maps (collected from the current tree before rewriting).
var envFields = map[string]bool{}

// envFieldType: the declared type of each of those fields, as source text
// ("bytes.Buffer", "*Env", "ExternalLookup"); envPtrMethods: "T.M" for every
// method the env package declares with a pointer receiver.  Both decide whether
// a method call on a field is a write to it (see mutatingCall).
var envFieldType = map[string]string{}
var envPtrMethods = map[string]bool{}

func typeText(e ast.Expr) string {
	switch t := e.(type) {
	case *ast.Ident:
		return t.Name
	case *ast.SelectorExpr:
		return typeText(t.X) + "." + t.Sel.Name
	case *ast.StarExpr:
		return "*" + typeText(t.X)
	case *ast.ArrayType:
		if t.Len == nil {
			return "[]" + typeText(t.Elt)
		}
		return "[N]" + typeText(t.Elt)
	case *ast.MapType:
		return "map[" + typeText(t.Key) + "]" + typeText(t.Value)
	}
	return "?"
}

// mutatingCall: is e.<field>.<method>(...) a write to the field?  Yes for the
// standard buffer types (every method but the observers) and for a struct type
// of the env package whose method has a pointer receiver; pointers, interfaces,
// maps, sync and atomic types are not written by a method call on them.
func mutatingCall(field, method string) bool {
	switch t := envFieldType[field]; t {
	case "bytes.Buffer", "strings.Builder":
		switch method {
		case "String", "Len", "Cap", "Bytes", "Available", "AvailableBuffer":
			return false
		}
		return true
	default:
		return envPtrMethods[t+"."+method]
	}
}

// envPtrNames: the names under which functions of the env package receive a
// *Env (receivers and parameters).  `*name` used as a value copies the whole
// scope, tables and lock included: a read of everything the lock guards.
var envPtrNames = map[string]bool{}

func collectEnvFields(af *ast.File) {
	for _, d := range af.Decls {
		fd, ok := d.(*ast.FuncDecl)
		if !ok {
			continue
		}
		var lists []*ast.FieldList
		if fd.Recv != nil {
			lists = append(lists, fd.Recv)
			if len(fd.Recv.List) == 1 {
				if st, ok := fd.Recv.List[0].Type.(*ast.StarExpr); ok {
					envPtrMethods[typeText(st.X)+"."+fd.Name.Name] = true
				}
			}
		}
		if fd.Type.Params != nil {
			lists = append(lists, fd.Type.Params)
		}
		for _, l := range lists {
			for _, f := range l.List {
				if typeText(f.Type) == "*Env" {
					for _, nm := range f.Names {
						envPtrNames[nm.Name] = true
					}
				}
			}
		}
	}
	ast.Inspect(af, func(nd ast.Node) bool {
		ts, ok := nd.(*ast.TypeSpec)
		if !ok || ts.Name.Name != "Env" {
			return true
		}
		if st, ok := ts.Type.(*ast.StructType); ok {
			for _, f := range st.Fields.List {
				for _, nm := range f.Names {
					if nm.Name != "rwMutex" && nm.Name != "values" && nm.Name != "types" {
						envFields[nm.Name] = true
						envFieldType[nm.Name] = typeText(f.Type)
					}
				}
			}
		}
		return false
	})
}

func rewriteEnv(fset *token.FileSet, af *ast.File, total map[string]int) int {
	n := 0
	for _, im := range af.Imports {
		if im.Path.Value == `"sync"` {
			im.Path.Value = `"github.com/mattn/anko/vhook"`
			im.Name = ast.NewIdent("sync")
			n++
			total["env.syncimport"]++
		}
		if im.Path.Value == `"sync/atomic"` {
			// every atomic operation of the env package becomes a schedule point
			im.Path.Value = `"github.com/mattn/anko/vhook/vatomic"`
			if im.Name == nil {
				im.Name = ast.NewIdent("atomic")
			}
			n++
			total["env.atomicimport"]++
		}
	}
	type acc struct {
		x     ast.Expr
		write bool
		pos   token.Pos
		field string // "" for the guarded maps
	}
	mentions := func(st ast.Stmt) []acc {
		var res []acc
		writes := map[*ast.SelectorExpr]bool{}
		atomicArg := map[*ast.SelectorExpr]bool{}
		markLHS := func(e ast.Expr) {
			for {
				switch t := e.(type) {
				case *ast.IndexExpr:
					e = t.X
					continue
				case *ast.SelectorExpr:
					writes[t] = true
				}
				return
			}
		}
		var hdr []ast.Node
		switch t := st.(type) {
		case *ast.AssignStmt:
			for _, l := range t.Lhs {
				markLHS(l)
			}
			hdr = []ast.Node{t}
		case *ast.IfStmt:
			if t.Init != nil {
				hdr = append(hdr, t.Init)
			}
			hdr = append(hdr, t.Cond)
		case *ast.RangeStmt:
			hdr = []ast.Node{t.X}
		case *ast.ForStmt, *ast.BlockStmt, *ast.SwitchStmt, *ast.TypeSwitchStmt, *ast.SelectStmt, *ast.LabeledStmt:
			return nil
		case *ast.DeferStmt, *ast.GoStmt:
			return nil
		default:
			hdr = []ast.Node{st}
		}
		for _, h := range hdr {
			ast.Inspect(h, func(nd ast.Node) bool {
				if _, ok := nd.(*ast.FuncLit); ok {
					return false
				}
				if ce, ok := nd.(*ast.CallExpr); ok {
					if id, ok := ce.Fun.(*ast.Ident); ok && (id.Name == "delete" || id.Name == "clear") && len(ce.Args) > 0 {
						markLHS(ce.Args[0])
					}
					if fn, ok := ce.Fun.(*ast.SelectorExpr); ok {
						// a mutating method called on a field writes the field
						if fse, ok := fn.X.(*ast.SelectorExpr); ok && envFields[fse.Sel.Name] && mutatingCall(fse.Sel.Name, fn.Sel.Name) {
							writes[fse] = true
						}
						// &e.f handed to a sync/atomic function is not a plain write
						if pk, ok := fn.X.(*ast.Ident); ok && pk.Name == "atomic" {
							for _, a := range ce.Args {
								if u, ok := a.(*ast.UnaryExpr); ok && u.Op == token.AND {
									if fse, ok := u.X.(*ast.SelectorExpr); ok {
										atomicArg[fse] = true
									}
								}
							}
						}
					}
				}
				if st, ok := nd.(*ast.StarExpr); ok {
					// `*e` as a value: the whole scope is read (tables and lock included)
					if id, ok := st.X.(*ast.Ident); ok && envPtrNames[id.Name] {
						res = append(res, acc{id, false, st.Pos(), ""})
						total["env.structcopy"]++
					}
				}
				if u, ok := nd.(*ast.UnaryExpr); ok && u.Op == token.AND {
					// taking the address of a field: whoever holds it may write through it
					if fse, ok := u.X.(*ast.SelectorExpr); ok && envFields[fse.Sel.Name] && !atomicArg[fse] {
						writes[fse] = true
					}
				}
				if kv, ok := nd.(*ast.KeyValueExpr); ok {
					// composite literal field names `values: ...` are not accesses
					if id, ok := kv.Key.(*ast.Ident); ok && (id.Name == "values" || id.Name == "types") {
						ast.Inspect(kv.Value, func(x ast.Node) bool { return true })
					}
				}
				if se, ok := nd.(*ast.SelectorExpr); ok && (se.Sel.Name == "values" || se.Sel.Name == "types") {
					res = append(res, acc{se.X, writes[se], se.Pos(), ""})
				} else if ok && envFields[se.Sel.Name] {
					if _, isCall := se.X.(*ast.CallExpr); !isCall {
						res = append(res, acc{se.X, writes[se], se.Pos(), se.Sel.Name})
					}
				}
				return true
			})
		}
		return res
	}
	var fix func(list []ast.Stmt) []ast.Stmt
	fix = func(list []ast.Stmt) []ast.Stmt {
		var outl []ast.Stmt
		for _, st := range list {
			for _, a := range mentions(st) {
				w := "false"
				if a.write {
					w = "true"
				}
				p := fset.Position(a.pos)
				site := fmt.Sprintf("env/%s:%d", filepath.Base(p.Filename), p.Line)
				if a.field != "" {
					outl = append(outl, &ast.ExprStmt{X: &ast.CallExpr{
						Fun: vh("AccessField"),
						Args: []ast.Expr{
							&ast.UnaryExpr{Op: token.AND, X: &ast.SelectorExpr{X: a.x, Sel: ast.NewIdent("rwMutex")}},
							&ast.BasicLit{Kind: token.STRING, Value: strconv.Quote(a.field)},
							ast.NewIdent(w),
							&ast.BasicLit{Kind: token.STRING, Value: strconv.Quote(site)},
						},
					}})
					n++
					total["env.fieldaccess"]++
					continue
				}
				outl = append(outl, &ast.ExprStmt{X: &ast.CallExpr{
					Fun: vh("Access"),
					Args: []ast.Expr{
						&ast.UnaryExpr{Op: token.AND, X: &ast.SelectorExpr{X: a.x, Sel: ast.NewIdent("rwMutex")}},
						ast.NewIdent(w),
						&ast.BasicLit{Kind: token.STRING, Value: strconv.Quote(site)},
					},
				}})
				n++
				total["env.access"]++
			}
			outl = append(outl, st)
		}
		return outl
	}
	ast.Inspect(af, func(nd ast.Node) bool {
		switch b := nd.(type) {
		case *ast.BlockStmt:
			b.List = fix(b.List)
		case *ast.CaseClause:
			b.Body = fix(b.Body)
		}
		return true
	})
	if n > 0 {
		addImport(af, "vhook", "github.com/mattn/anko/vhook")
	}
	return n
}

func rewriteLexer(af *ast.File, total map[string]int) int {
	n := 0
	for _, d := range af.Decls {
		fd, ok := d.(*ast.FuncDecl)
		if !ok || fd.Name.Name != "Lex" || fd.Recv == nil || fd.Body == nil {
			continue
		}
		call := &ast.ExprStmt{X: &ast.CallExpr{Fun: vh("Yield"), Args: []ast.Expr{&ast.BasicLit{Kind: token.STRING, Value: `"lex"`}}}}
		fd.Body.List = append([]ast.Stmt{call}, fd.Body.List...)
		n++
		total["parser.lex"]++
	}
	if n > 0 {
		addImport(af, "", "github.com/mattn/anko/vhook")
	}
	return n
}
