// Package explore is the stateless choice-point explorer: a driver asks a
// Chooser for decisions; DFS re-runs the driver once per decision vector,
// depth-first, replaying a prefix and taking choice 0 afterwards, then
// branching on every later point whose deviation cost fits the bound.
package explore

import (
	"fmt"
	"time"
)

// Point records one choice point of an execution.
type Point struct {
	N      int  // fan-out
	Costly bool // taking a non-default alternative here costs one deviation
}

// Run is the Chooser handed to one execution.
type Run struct {
	Prefix  []int
	Points  []Point
	Choices []int
	Err     error // replay divergence
}

// Choose returns the decision at this point: the recorded one while replaying
// the prefix, 0 afterwards.  Points with n<=1 are not recorded.
func (r *Run) Choose(n int, costly bool) int {
	if n <= 1 {
		return 0
	}
	c := 0
	i := len(r.Points)
	if i < len(r.Prefix) {
		c = r.Prefix[i]
		if c >= n {
			if r.Err == nil {
				r.Err = fmt.Errorf("replay divergence at point %d: recorded choice %d but fan-out is %d", i, c, n)
			}
			c = 0
		}
	}
	r.Points = append(r.Points, Point{N: n, Costly: costly})
	r.Choices = append(r.Choices, c)
	return c
}

// Deviations counts the costly non-default choices taken.
func (r *Run) Deviations() int {
	d := 0
	for i, c := range r.Choices {
		if c != 0 && r.Points[i].Costly {
			d++
		}
	}
	return d
}

type Options struct {
	Bound    int   // maximal number of deviations; <0 = unbounded
	MaxExecs int64 // 0 = no cap
	Deadline time.Time
}

type Stats struct {
	Execs     int64
	MaxPoints int
	Capped    bool
	Diverged  int64
}

type item struct {
	prefix []int
	used   int
}

// DFS explores all decision vectors within the bound.  exec runs one
// execution with the given chooser and returns false to stop the search.
func DFS(o Options, exec func(r *Run) bool) Stats {
	var st Stats
	stack := []item{{}}
	for len(stack) > 0 {
		it := stack[len(stack)-1]
		stack = stack[:len(stack)-1]
		if (o.MaxExecs > 0 && st.Execs >= o.MaxExecs) || (!o.Deadline.IsZero() && time.Now().After(o.Deadline)) {
			st.Capped = true
			return st
		}
		r := &Run{Prefix: it.prefix}
		cont := exec(r)
		st.Execs++
		if r.Err != nil {
			st.Diverged++
		}
		if len(r.Points) > st.MaxPoints {
			st.MaxPoints = len(r.Points)
		}
		if !cont {
			return st
		}
		// push alternatives in reverse so that the earliest point / lowest
		// alternative is explored first
		for i := len(r.Points) - 1; i >= len(it.prefix); i-- {
			cost := it.used
			if r.Points[i].Costly {
				cost++
			}
			if o.Bound >= 0 && cost > o.Bound {
				continue
			}
			for alt := r.Points[i].N - 1; alt >= 1; alt-- {
				np := make([]int, i+1)
				copy(np, r.Choices[:i])
				np[i] = alt
				stack = append(stack, item{prefix: np, used: cost})
			}
		}
	}
	return st
}
