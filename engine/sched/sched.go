// Package sched is the cooperative scheduler: exactly one logical thread runs at
// a time; a thread announces its next hooked operation (mutex, channel select,
// close, spawn, yield) and parks; the scheduler computes the enabled set from
// shadow state of mutexes and channels and asks the Chooser who proceeds.  The
// granted thread performs the real operation itself.
package sched

import (
	"fmt"
	"reflect"
	"runtime"
	"sort"
	"strings"
	"sync"
	"time"

	"github.com/mattn/anko/vhook"
)

// Chooser decides among n options; costly tells that a non-zero answer is a
// deviation (preemption of a runnable thread).
type Chooser interface {
	Choose(n int, costly bool) int
}

type opKind int

const (
	opStart    opKind = iota // spawned, not yet run
	opYield                  // pure schedule point
	opSelect                 // channel select
	opResume                 // select already completed by a rendezvous partner
	opLock                   // about to announce a lock request
	opLockWait               // announced writer/reader waiting for the mutex
)

type thread struct {
	id   int
	name string
	wake chan bool // true = proceed, false = abort
	kind opKind
	cs   []reflect.SelectCase
	m    *vhook.RWMutex
	wr   bool
	tag  string

	rChosen int
	rVal    reflect.Value
	rOK     bool
	done    bool
	ord     int // position in the canonical order of the current dispatch
}

type option struct {
	t       *thread
	ci      int     // select case index
	partner *thread // rendezvous partner
	pi      int
	ev      *Event
}

type mstate struct {
	writer  *thread
	readers map[*thread]int
	pending map[*thread]bool // writers that announced and wait
}

// Event is a harness-controlled pseudo-thread step (e.g. "cancel the context now").
type Event struct {
	Name    string
	Enabled func() bool
	Fire    func()
	Once    bool
	fired   bool
}

// Step is one entry of the recorded trace.
type Step struct {
	Thread int    `json:"t"`
	What   string `json:"w"`
}

type Sched struct {
	mu      sync.Mutex
	ch      Chooser
	threads []*thread
	cur     *thread
	closed  map[uintptr]bool
	mx      map[*vhook.RWMutex]*mstate
	events  []*Event
	fin     chan string

	// configuration
	LockPoints   bool                    // mutex operations are schedule points (else they are free: one thread at a time)
	Shared       map[*vhook.RWMutex]bool // mutexes whose guarded accesses are checked by the lockset monitor
	OnLock       func()                  // called by the running thread at every lock acquisition (observation hook)
	FieldsAll    bool                    // the field rule (AccessField) covers every scope, also scopes created during the run
	UnlockPoints bool                    // also make every unlock a schedule point (redundant, for cross-checking)
	MaxSteps     int                     // 0 = default 20000
	Record       bool                    // keep Trace
	OnStep       func()                  // called (by the dispatching thread) before every choice

	// WatchChan, when set (Pointer of a channel), makes the scheduler count the
	// select grants in which a receive on that (closed) channel was ready but a
	// different case was granted - Go's select may legitimately do that.
	WatchChan uintptr

	// results
	WatchSkipped int
	Steps        int
	Preemptions  int
	Trace        []Step
	Violations   []string // lockset / unlock-of-unheld reports
	Blocked      []string // on deadlock: what every live thread waits for
	aborting     bool
	lastStep     time.Time
	wg           sync.WaitGroup
	fields       map[*vhook.RWMutex]map[string][]fieldAccess
}

func New(ch Chooser) *Sched {
	return &Sched{ch: ch, closed: map[uintptr]bool{}, mx: map[*vhook.RWMutex]*mstate{}, fin: make(chan string, 1)}
}

var installMu sync.Mutex

// MarkClosed tells the shadow state that ch (a channel value) has been closed
// outside of a hooked Close (e.g. a context's Done channel).
func (s *Sched) MarkClosed(ch interface{}) {
	v := reflect.ValueOf(ch)
	if v.Kind() == reflect.Chan && !v.IsNil() {
		s.closed[v.Pointer()] = true
	}
}

// AddEvent registers a pseudo-thread step.
func (s *Sched) AddEvent(e *Event) { s.events = append(s.events, e) }

// AddThread registers a thread before Run; it starts parked (no schedule point is spent on spawning).
func (s *Sched) AddThread(name string, fn func()) {
	t := &thread{id: len(s.threads), name: name, wake: make(chan bool, 1), kind: opStart}
	s.threads = append(s.threads, t)
	s.wg.Add(1)
	go s.body(t, fn)
}

// Verdicts returned by Run.
const (
	OK        = "ok"
	Deadlock  = "deadlock"
	StepLimit = "step-limit"
	Stuck     = "stuck" // a thread ran for a long time without reaching a schedule point; the process is poisoned
)

// Run installs the scheduler, runs the registered threads (plus main, if not
// nil, as an additional first thread) until all are done or none is enabled.
func (s *Sched) Run(main func()) string {
	installMu.Lock()
	defer installMu.Unlock()
	if main != nil {
		t := &thread{id: len(s.threads), name: "main", wake: make(chan bool, 1), kind: opStart}
		// main goes first in id order: renumber
		s.threads = append([]*thread{t}, s.threads...)
		for i, u := range s.threads {
			u.id = i
		}
		s.wg.Add(1)
		go s.body(t, main)
	}
	if s.MaxSteps == 0 {
		s.MaxSteps = 20000
	}
	vhook.S = s
	defer func() { vhook.S = nil }()
	s.lastStep = time.Now()
	s.mu.Lock()
	go func() {
		// the initial dispatch runs on its own goroutine acting as an already-ended thread
		s.dispatch(nil, true)
	}()
	tick := time.NewTicker(2 * time.Second)
	defer tick.Stop()
	for {
		select {
		case res := <-s.fin:
			// every thread of this run must be gone before the scheduler is
			// uninstalled (a straggler must never reach the next run's scheduler)
			s.wg.Wait()
			return res
		case <-tick.C:
			s.mu.Lock()
			idle := time.Since(s.lastStep)
			s.mu.Unlock()
			if idle > 30*time.Second {
				return Stuck
			}
		}
	}
}

func (s *Sched) body(t *thread, fn func()) {
	defer s.wg.Done()
	if !<-t.wake {
		return
	}
	defer func() {
		// thread end (also reached through Goexit on abort, and through a panic
		// that nobody recovered — let that one propagate)
		s.mu.Lock()
		t.done = true
		if s.aborting {
			s.mu.Unlock()
			return
		}
		s.dispatch(t, true)
	}()
	fn()
}

func chanKey(v reflect.Value) (uintptr, bool) {
	if !v.IsValid() || v.Kind() != reflect.Chan || v.IsNil() {
		return 0, false
	}
	return v.Pointer(), true
}

// isClosed reports whether the channel is closed, also when it was closed
// natively (by host code) rather than through the hooked Close.  An empty
// channel is probed with a non-blocking receive: with one thread running at a
// time no real sender can be waiting, so the probe either reports "closed" or
// does nothing.
func (s *Sched) isClosed(c reflect.Value, k uintptr) bool {
	if s.closed[k] {
		return true
	}
	if c.Len() > 0 {
		return false
	}
	chosen, _, ok := reflect.Select([]reflect.SelectCase{{Dir: reflect.SelectRecv, Chan: c}, {Dir: reflect.SelectDefault}})
	if chosen == 0 && !ok {
		s.closed[k] = true
		return true
	}
	if chosen == 0 && ok {
		panic("sched: a value appeared on an empty channel while probing (operation outside the scheduler)")
	}
	return false
}

func (s *Sched) mstate(m *vhook.RWMutex) *mstate {
	st := s.mx[m]
	if st == nil {
		st = &mstate{readers: map[*thread]int{}, pending: map[*thread]bool{}}
		s.mx[m] = st
	}
	return st
}

// options of thread t under the current shadow state
func (s *Sched) options(t *thread) []option {
	switch t.kind {
	case opStart, opYield, opResume, opLock:
		return []option{{t: t}}
	case opLockWait:
		st := s.mstate(t.m)
		if t.wr {
			if st.writer == nil && len(st.readers) == 0 {
				return []option{{t: t}}
			}
			return nil
		}
		// reader: no writer holds and no writer is pending (Go's writer preference)
		if st.writer == nil && len(st.pending) == 0 {
			return []option{{t: t}}
		}
		return nil
	case opSelect:
		var res []option
		for i, c := range t.cs {
			if c.Dir == reflect.SelectDefault {
				continue
			}
			k, ok := chanKey(c.Chan)
			if !ok {
				continue
			}
			cp := c.Chan.Cap()
			switch c.Dir {
			case reflect.SelectRecv:
				if c.Chan.Len() > 0 || s.isClosed(c.Chan, k) {
					res = append(res, option{t: t, ci: i})
				} else if cp == 0 {
					res = append(res, s.partners(t, i, k, reflect.SelectSend)...)
				}
			case reflect.SelectSend:
				if s.isClosed(c.Chan, k) || (cp > 0 && c.Chan.Len() < cp) {
					res = append(res, option{t: t, ci: i})
				} else if cp == 0 {
					res = append(res, s.partners(t, i, k, reflect.SelectRecv)...)
				}
			}
		}
		if len(res) == 0 {
			// a select with a default case never blocks
			for i, c := range t.cs {
				if c.Dir == reflect.SelectDefault {
					return []option{{t: t, ci: i}}
				}
			}
		}
		return res
	}
	return nil
}

func (s *Sched) partners(t *thread, i int, k uintptr, want reflect.SelectDir) []option {
	var res []option
	for _, u := range s.threads {
		if u == t || u.done || u.kind != opSelect || u.ord < t.ord {
			// a rendezvous is listed once, under the thread that comes first in the canonical order
			continue
		}
		for j, uc := range u.cs {
			if uk, ok := chanKey(uc.Chan); ok && uk == k && uc.Dir == want {
				res = append(res, option{t: t, ci: i, partner: u, pi: j})
			}
		}
	}
	return res
}

// box passes v through a 1-slot channel of the element type so the receiver
// gets exactly the reflect.Value a real receive yields.
func box(chanT reflect.Type, v reflect.Value) reflect.Value {
	tmp := reflect.MakeChan(reflect.ChanOf(reflect.BothDir, chanT.Elem()), 1)
	tmp.Send(v)
	r, _ := tmp.Recv()
	return r
}

func (s *Sched) describe(t *thread) string {
	switch t.kind {
	case opStart:
		return "start"
	case opYield:
		return "yield:" + t.tag
	case opResume:
		return "resume"
	case opLock, opLockWait:
		w := "RLock"
		if t.wr {
			w = "Lock"
		}
		if t.kind == opLockWait {
			w += "(wait)"
		}
		return w
	case opSelect:
		var parts []string
		for _, c := range t.cs {
			switch c.Dir {
			case reflect.SelectRecv:
				parts = append(parts, "recv")
			case reflect.SelectSend:
				parts = append(parts, "send")
			default:
				parts = append(parts, "default")
			}
		}
		return "select[" + strings.Join(parts, ",") + "]"
	}
	return "?"
}

func (s *Sched) abortAll(self *thread) {
	s.aborting = true
	for _, u := range s.threads {
		if !u.done && u != self {
			select {
			case u.wake <- false:
			default:
			}
		}
	}
}

// dispatch is called with s.mu held by the thread that just parked (or ended).
func (s *Sched) dispatch(self *thread, ended bool) {
	for {
		s.lastStep = time.Now()
		if s.OnStep != nil {
			s.OnStep()
		}
		var all []option
		var order []*thread
		if !ended && self != nil {
			order = append(order, self)
		}
		var rest []*thread
		for _, u := range s.threads {
			if u != self && !u.done {
				rest = append(rest, u)
			}
		}
		sort.Slice(rest, func(i, j int) bool { return rest[i].id < rest[j].id })
		order = append(order, rest...)
		selfEnabled := false
		for i, u := range order {
			u.ord = i
		}
		for _, u := range order {
			os := s.options(u)
			if u == self && len(os) > 0 {
				selfEnabled = true
			}
			all = append(all, os...)
		}
		nThreadOpts := len(all)
		for _, e := range s.events {
			if (e.Once && e.fired) || (e.Enabled != nil && !e.Enabled()) {
				continue
			}
			all = append(all, option{ev: e})
		}
		if nThreadOpts == 0 {
			// only events (or nothing) left
			alive := false
			for _, u := range s.threads {
				if !u.done {
					alive = true
				}
			}
			if !alive {
				s.aborting = true
				s.mu.Unlock()
				s.fin <- OK
				return
			}
			if len(all) == 0 {
				for _, u := range s.threads {
					if !u.done {
						s.Blocked = append(s.Blocked, fmt.Sprintf("T%d(%s):%s", u.id, u.name, s.describe(u)))
					}
				}
				s.abortAll(self)
				s.mu.Unlock()
				s.fin <- Deadlock
				if !ended {
					runtime.Goexit()
				}
				return
			}
		}
		if s.Steps >= s.MaxSteps {
			s.abortAll(self)
			s.mu.Unlock()
			s.fin <- StepLimit
			if !ended {
				runtime.Goexit()
			}
			return
		}
		i := 0
		if len(all) > 1 {
			i = s.ch.Choose(len(all), selfEnabled)
			if i < 0 || i >= len(all) {
				i = 0
			}
		}
		s.Steps++
		c := all[i]
		if selfEnabled && (c.ev != nil || c.t != self) {
			s.Preemptions++
		}
		if c.ev != nil {
			c.ev.fired = true
			if s.Record {
				s.Trace = append(s.Trace, Step{Thread: -1, What: "event:" + c.ev.Name})
			}
			c.ev.Fire()
			continue
		}
		t := c.t
		if s.Record {
			s.Trace = append(s.Trace, Step{Thread: t.id, What: s.describe(t)})
		}
		switch t.kind {
		case opLock:
			// announce; acquire at once when possible, else wait (a second grant is needed)
			st := s.mstate(t.m)
			if t.wr {
				if st.writer == nil && len(st.readers) == 0 {
					st.writer = t
				} else {
					st.pending[t] = true
					t.kind = opLockWait
					if t == self {
						continue
					}
					// the announcing step belongs to t, which stays parked; keep dispatching on behalf of self
					continue
				}
			} else {
				if st.writer == nil && len(st.pending) == 0 {
					st.readers[t]++
				} else {
					t.kind = opLockWait
					continue
				}
			}
		case opLockWait:
			st := s.mstate(t.m)
			if t.wr {
				delete(st.pending, t)
				st.writer = t
			} else {
				st.readers[t]++
			}
		case opSelect:
			t.rChosen = c.ci
			if s.WatchChan != 0 && s.closed[s.WatchChan] {
				for _, sel := range []struct {
					th *thread
					ci int
				}{{t, c.ci}, {c.partner, c.pi}} {
					if sel.th == nil {
						continue
					}
					for j, cs := range sel.th.cs {
						if k, ok := chanKey(cs.Chan); ok && k == s.WatchChan && cs.Dir == reflect.SelectRecv && j != sel.ci {
							s.WatchSkipped++
						}
					}
				}
			}
			if c.partner != nil {
				p := c.partner
				if t.cs[c.ci].Dir == reflect.SelectRecv {
					t.rVal, t.rOK = box(t.cs[c.ci].Chan.Type(), p.cs[c.pi].Send), true
					p.rVal, p.rOK = reflect.Value{}, false
				} else {
					p.rVal, p.rOK = box(p.cs[c.pi].Chan.Type(), t.cs[c.ci].Send), true
					t.rVal, t.rOK = reflect.Value{}, false
				}
				p.rChosen = c.pi
				p.kind = opResume
				t.kind = opResume
			}
		}
		s.cur = t
		s.mu.Unlock()
		if t == self {
			return
		}
		t.wake <- true
		if !ended {
			if !<-self.wake {
				runtime.Goexit()
			}
		}
		return
	}
}

func (s *Sched) park(kind opKind) *thread {
	s.mu.Lock()
	t := s.cur
	t.kind = kind
	return t
}

// ---- vhook.Scheduler ----

func (s *Sched) Select(cases []reflect.SelectCase) (int, reflect.Value, bool) {
	if s.aborting {
		runtime.Goexit()
	}
	// reflect.Select validates send values before it blocks; mirror that in the
	// caller's own goroutine so that the panic meets the interpreter's recover
	for _, c := range cases {
		if c.Dir == reflect.SelectSend && c.Chan.IsValid() && c.Chan.Kind() == reflect.Chan && !c.Chan.IsNil() {
			if !c.Send.IsValid() {
				panic("reflect.Select: SendDir case missing Send value")
			}
			if !c.Send.Type().AssignableTo(c.Chan.Type().Elem()) {
				panic("reflect.Select: value of type " + c.Send.Type().String() + " is not assignable to type " + c.Chan.Type().Elem().String())
			}
		}
	}
	t := s.park(opSelect)
	t.cs = cases
	s.dispatch(t, false)
	if t.kind == opResume {
		t.kind = opYield
		t.cs = nil
		return t.rChosen, t.rVal, t.rOK
	}
	t.cs = nil
	if cases[t.rChosen].Dir == reflect.SelectDefault {
		return t.rChosen, reflect.Value{}, false
	}
	// perform the real, non-blocking operation ourselves (a panic such as
	// "send on closed channel" unwinds in the caller's own goroutine)
	ch, v, ok := reflect.Select([]reflect.SelectCase{cases[t.rChosen], {Dir: reflect.SelectDefault}})
	if ch != 0 {
		panic(fmt.Sprintf("sched: granted select case %d was not ready (shadow state out of sync)", t.rChosen))
	}
	return t.rChosen, v, ok
}

func (s *Sched) Close(ch reflect.Value) {
	if s.aborting {
		runtime.Goexit()
	}
	t := s.park(opYield)
	t.tag = "close"
	s.dispatch(t, false)
	ch.Close() // may panic in the script's own goroutine
	s.mu.Lock()
	if k, ok := chanKey(ch); ok {
		s.closed[k] = true
	}
	s.mu.Unlock()
}

func (s *Sched) Go(fn func()) {
	if s.aborting {
		runtime.Goexit()
	}
	s.mu.Lock()
	u := &thread{id: len(s.threads), name: "go", wake: make(chan bool, 1), kind: opStart}
	s.threads = append(s.threads, u)
	s.wg.Add(1)
	go s.body(u, fn)
	t := s.cur
	t.kind = opYield
	t.tag = "spawn"
	s.dispatch(t, false)
}

func (s *Sched) Yield(tag string) {
	if s.aborting {
		runtime.Goexit()
	}
	t := s.park(opYield)
	t.tag = tag
	s.dispatch(t, false)
}

func (s *Sched) Lock(m *vhook.RWMutex, write bool) {
	if s.aborting {
		return
	}
	if s.OnLock != nil {
		s.OnLock()
	}
	if !s.LockPoints {
		// one thread at a time and no schedule point inside critical sections:
		// only keep the shadow state for the lockset monitor
		s.mu.Lock()
		st := s.mstate(m)
		if write {
			st.writer = s.cur
		} else {
			st.readers[s.cur]++
		}
		s.mu.Unlock()
		return
	}
	t := s.park(opLock)
	t.m, t.wr = m, write
	s.dispatch(t, false)
}

func (s *Sched) Unlock(m *vhook.RWMutex, write bool) {
	if s.aborting {
		return
	}
	s.mu.Lock()
	st := s.mstate(m)
	t := s.cur
	if write {
		if st.writer != t {
			s.Violations = append(s.Violations, fmt.Sprintf("Unlock of a mutex not write-held by T%d", t.id))
		}
		st.writer = nil
	} else {
		if st.readers[t] == 0 {
			s.Violations = append(s.Violations, fmt.Sprintf("RUnlock of a mutex not read-held by T%d", t.id))
		} else {
			st.readers[t]--
			if st.readers[t] == 0 {
				delete(st.readers, t)
			}
		}
	}
	if !s.LockPoints || !s.UnlockPoints {
		// releasing is not a schedule point: preempting right after an unlock is
		// equivalent to preempting at the thread's next hooked operation, since
		// the code in between touches no shared state (the lockset monitor
		// checks exactly that)
		s.mu.Unlock()
		return
	}
	t.kind = opYield
	t.tag = "unlock"
	s.dispatch(t, false)
}

func (s *Sched) Access(m *vhook.RWMutex, write bool, site string) {
	if s.aborting || s.Shared == nil || !s.Shared[m] {
		return
	}
	s.mu.Lock()
	defer s.mu.Unlock()
	st := s.mx[m]
	t := s.cur
	ok := st != nil && (st.writer == t || (!write && st.readers[t] > 0))
	if !ok {
		kind := "read"
		if write {
			kind = "write"
		}
		s.Violations = append(s.Violations, fmt.Sprintf("unlocked %s of guarded map at %s", kind, site))
	}
}

type fieldAccess struct {
	t         *thread
	write     bool
	protected bool
	site      string
}

// AccessField applies an Eraser-style rule to the other fields of a shared
// scope: two accesses by different threads, at least one of them a write,
// conflict unless both were made under the scope's lock (write lock for the
// write).  Fields that are only written before the scope is shared never
// conflict.
func (s *Sched) AccessField(m *vhook.RWMutex, field string, write bool, site string) {
	if s.aborting || (!s.FieldsAll && (s.Shared == nil || !s.Shared[m])) {
		return
	}
	s.mu.Lock()
	defer s.mu.Unlock()
	st := s.mx[m]
	t := s.cur
	prot := st != nil && (st.writer == t || (!write && st.readers[t] > 0))
	if s.fields == nil {
		s.fields = map[*vhook.RWMutex]map[string][]fieldAccess{}
	}
	if s.fields[m] == nil {
		s.fields[m] = map[string][]fieldAccess{}
	}
	for _, a := range s.fields[m][field] {
		if a.t != t && (a.write || write) && !(a.protected && prot) {
			s.Violations = append(s.Violations, fmt.Sprintf("unsynchronised accesses to field %s of a shared scope (one of them a write) at %s", field, site))
			break
		}
	}
	if len(s.fields[m][field]) < 64 {
		s.fields[m][field] = append(s.fields[m][field], fieldAccess{t, write, prot, site})
	}
}

// CurrentThread returns the id of the running thread (for harness logs).
func (s *Sched) CurrentThread() int {
	if s.cur == nil {
		return -1
	}
	return s.cur.id
}
