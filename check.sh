#!/bin/bash
# check.sh <ID> <quick|thorough> [extra vcheck args]
# Rebuilds the checker against the CURRENT working tree of the repository
# (VERIF_REPO, default /repo) through a freshly generated overlay, then runs it.
# exit 0 = held on everything explored; exit 1 + "VIOLATION property=<id> replay=<path>";
# exit 2 = the machinery could not build or run (never a verdict).
set -u
ID="${1:?property id}"; TIER="${2:-quick}"; shift; shift || true
VERIF="${VERIF_DIR:-/verif}"
REPO="${VERIF_REPO:-/repo}"
export GOFLAGS=-mod=mod GOPROXY=off GOSUMDB=off GOTOOLCHAIN=local
export GOCACHE="$VERIF/.cache/go-build"
export VERIF_DIR="$VERIF" VERIF_REPO="$REPO"
WORK="$VERIF/.work/run-$ID-$$"
mkdir -p "$WORK" "$VERIF/.work/bin" "$VERIF/evidence" "$VERIF/replays" || exit 2
trap 'rm -rf "$WORK"' EXIT
cd "$VERIF/engine" || exit 2

MODARGS=()
if [ "$REPO" != "/repo" ]; then
  sed "s#=> /repo#=> $REPO#" go.mod > "$WORK/go.mod"
  cp go.sum "$WORK/go.sum" 2>/dev/null
  MODARGS=(-modfile="$WORK/go.mod")
fi

go build "${MODARGS[@]}" -o "$WORK/mkoverlay" ./cmd/mkoverlay >"$WORK/build.log" 2>&1 || { cat "$WORK/build.log" >&2; echo "machinery error: mkoverlay did not build" >&2; exit 2; }
"$WORK/mkoverlay" -repo "$REPO" -out "$WORK/ov" -shim "$VERIF/engine/shim" || { echo "machinery error: overlay generation failed" >&2; exit 2; }
# add the property's package to the build through the overlay
PKG="$(echo "$ID" | tr 'A-Z' 'a-z')"
[ -d "$VERIF/engine/props/$PKG" ] || { echo "machinery error: no checker package props/$PKG" >&2; exit 2; }
printf 'package main\n\nimport _ "verif/engine/props/%s"\n' "$PKG" > "$WORK/zz_prop.go"
python3 - "$WORK/ov/overlay.json" "$VERIF/engine/cmd/vcheck/zz_prop.go" "$WORK/zz_prop.go" <<'PY' || exit 2
import json,sys
o=json.load(open(sys.argv[1])); o["Replace"][sys.argv[2]]=sys.argv[3]; json.dump(o,open(sys.argv[1],"w"),indent=1)
PY
go build "${MODARGS[@]}" -tags verif -overlay "$WORK/ov/overlay.json" -o "$WORK/vcheck" ./cmd/vcheck >"$WORK/build.log" 2>&1 || { cat "$WORK/build.log" >&2; echo "machinery error: checker did not build against $REPO" >&2; exit 2; }
# supplementary race-detector pass (engine/common/race.go): a second build of the same
# checker with -race, run free-running by the checker itself
if [ -e "$VERIF/engine/props/$PKG/.racepass" ] && [ -z "${VERIF_NO_RACEPASS:-}" ]; then
  if go build "${MODARGS[@]}" -race -tags verif -overlay "$WORK/ov/overlay.json" -o "$WORK/vcheck-race" ./cmd/vcheck >"$WORK/build-race.log" 2>&1; then
    export VERIF_RACEBIN="$WORK/vcheck-race"
  else
    cat "$WORK/build-race.log" >&2; echo "machinery error: -race build of the checker failed" >&2; exit 2
  fi
fi
export VERIF_SITES="$WORK/ov/sites.json"
"$WORK/vcheck" -prop "$ID" -tier "$TIER" -repo "$REPO" "$@"
rc=$?
exit $rc
