#!/bin/bash
# seedregress.sh [pattern]: re-runs the property's quick check against every saved seeded change
# (patch applied to a scratch worktree of /repo; suite and demonstration are NOT re-run, they were
# confirmed when the change was saved).  Prints one line per change; summary at the end.
# Works from a snapshot too: VERIF_DIR=<snapshot> <snapshot>/seedregress.sh
set -u
V="${VERIF_DIR:-/verif}"; export VERIF_DIR="$V"
PAT="${1:-*}"
OUT="${SEEDREGRESS_OUT:-/tmp/seedregress}"; mkdir -p "$OUT"; : > "$OUT/summary.txt"
export GOFLAGS=-mod=mod GOPROXY=off GOSUMDB=off GOTOOLCHAIN=local
for d in "$V"/seeded/$PAT/; do
  id=$(basename "$d"); case "$id" in *rejected*) continue;; esac
  grep -q '"status": "obsolete' "$d/meta.json" 2>/dev/null && { echo "$id: obsolete (skipped)" | tee -a "$OUT/summary.txt"; continue; }
  prop=$(python3 -c "import json;print(json.load(open('$d/meta.json'))['property'])")
  WT=/tmp/wt/reg-$id; git -C /repo worktree remove --force "$WT" >/dev/null 2>&1
  git -C /repo worktree add --detach "$WT" HEAD -q || { echo "$id: cannot create worktree" | tee -a "$OUT/summary.txt"; continue; }
  if ! ( cd "$WT" && { git apply --3way "$d/patch.diff" >/dev/null 2>&1 || patch -p1 -s < "$d/patch.diff" >/dev/null 2>&1; } ); then
    echo "$id [$prop]: PATCH DOES NOT APPLY" | tee -a "$OUT/summary.txt"; git -C /repo worktree remove --force "$WT" >/dev/null 2>&1; continue
  fi
  mkdir -p "$OUT/$id"
  VERIF_REPO="$WT" VERIF_OUT="$OUT/$id" setsid "$V/check.sh" "$prop" quick > "$OUT/$id/check.log" 2>&1 &
  cpid=$!; ( sleep 1800; kill -- -$cpid 2>/dev/null ) >/dev/null 2>&1 & wpid=$!; wait $cpid; rc=$?; kill $wpid 2>/dev/null; pkill -P $wpid sleep 2>/dev/null
  if [ $rc -eq 1 ] && grep -q "^VIOLATION property=$prop" "$OUT/$id/check.log"; then r="DETECTED $(grep -m1 -A1 '^VIOLATION' "$OUT/$id/check.log" | tail -1 | cut -c1-110)"; else r="MISSED(rc=$rc)"; fi
  echo "$id [$prop]: $r" | tee -a "$OUT/summary.txt"
  rm -rf "$OUT/$id/replays" "$OUT/$id/evidence"
  git -C /repo worktree remove --force "$WT" >/dev/null 2>&1
done
echo "SEEDREGRESS: $(grep -c DETECTED "$OUT/summary.txt") detected, $(grep -c -v DETECTED "$OUT/summary.txt") not detected"
